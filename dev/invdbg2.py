import sys, os
sys.path.insert(0,'/verif')
from engine import pipeline, crate
from engine.axioms import load_axioms
F=pipeline.load_facts('std')
os.environ['VERIF_INVDBG']=sys.argv[1]
out=open('/tmp/invdbg.log','w')
def log(s): out.write(s+'\n'); out.flush()
crate.analyze_crate(F, log=log, axioms=load_axioms(), max_rounds=int(sys.argv[2]))
