import sys, time, pickle; sys.path.insert(0, "/verif")
from engine import pipeline, crate
from engine.absint import Interp
from engine.models import M
from engine.lin import show_lin, lin_from_key, ATOM_LO, ATOM_HI, ATOM_MASK
F=pipeline.load_facts('std')
ser=pickle.load(open(sys.argv[2],'rb'))
inv={}
for sp,v in ser.items():
    inv[sp]={"top":v["top"],"disjuncts":[[lin_from_key(k) for k in d] for d in v["disjuncts"]],"atoms":v.get("atoms",{})}
    if v.get("bottom"): inv[sp]["bottom"]=True
    for a,(lo,hi,m) in v.get("atoms",{}).items():
        if a not in ATOM_LO: ATOM_LO[a]=lo; ATOM_HI[a]=hi; ATOM_MASK[a]=m
b=F.bodies[sys.argv[1]]
I=Interp(F,M,inv,max_depth=2)
I.rootset=frozenset(crate.select_roots(F))
I.inv_targets=crate.inv_targets(F)
if len(sys.argv)>3: I.debug_rec=True
I.analyze_root(b)
for sp,ds in I.inv_records.items():
    print(sp,len(ds))
    for d in ds[:14]: print('    ', (' ; '.join(show_lin(l)+'>=0' for l in d)).replace('packet_builder::PacketBuilderStep','PBS')[:500])
