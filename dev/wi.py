import sys, time; sys.path.insert(0, "/verif")
from engine import pipeline, rules_window
from engine.props.c07 import inv_from_e1
F=pipeline.load_facts('std')
e1=pipeline.ensure_e1('std','quick')
for rec in rules_window.run(F, inv_from_e1(e1), e1.get('summaries')):
    print({k:v for k,v in rec.items() if k!='problems'}, 'OK' if not rec['problems'] else 'FAIL')
    for p in rec['problems']: print('     ', p[:300])
