import sys, time; sys.path.insert(0, "/verif")
from engine import pipeline, rules_rt
from engine.props.c07 import inv_from_e1
F=pipeline.load_facts('std')
e1=pipeline.ensure_e1('std','quick')
t=time.time()
out=rules_rt.run(F, inv_from_e1(e1), e1.get('summaries'), only=sys.argv[1] if len(sys.argv)>1 else None)
print('t=%.1f'%(time.time()-t))
for r in out:
    if r['err']: print('ERR', r['type'], r['err'].strip().splitlines()[-3:])
    for rec in r['records']:
        print('%-4s %-70s %-11s paths=%s norm=%s %s' % (rec['rule'], rec['type'].split('::',1)[1] if '::' in rec['type'] else rec['type'], rec['what'], rec.get('paths'), rec.get('normalised'), 'OK' if not rec['problems'] else 'FAIL'), '(%.1fs)'%r['time'])
        for p in rec['problems'][:3]: print('        ', p[:260])
