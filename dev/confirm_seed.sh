#!/bin/bash
# confirm_seed.sh <ID> <n> : confirm a sub-agent's seeded change in a scratch worktree of /repo:
#   (1) patch applies on HEAD and the workspace builds, (2) the unedited suite passes with the change,
#   (3) the demonstration fails with the change, (4) the demonstration passes without it.
# On success the seed is copied to /verif/seeded/<ID>-<n>/ with a meta.json (filled in by hand afterwards for `needs`).
id=$1; n=$2
d=/tmp/seed_out/$id/$n
wt=/tmp/cs_${id}_$n
export CARGO_NET_OFFLINE=true
export CARGO_TARGET_DIR=/tmp/cs_target_$3
log=$d/confirm.log
: > $log
git -C /repo worktree remove --force $wt >/dev/null 2>&1
git -C /repo worktree add -q --detach $wt HEAD || exit 2
cleanup() { git -C /repo worktree remove --force $wt >/dev/null 2>&1; }
trap cleanup EXIT
cd $wt
if ! git apply $d/patch.diff 2>>$log; then echo "$id/$n: PATCH DOES NOT APPLY"; exit 1; fi
# (2) suite with the change (no demo present)
cargo test --workspace --no-fail-fast --offline > $d/confirm_suite_with.log 2>&1
suite_rc=$?
passed=$(grep -E "^test result:" $d/confirm_suite_with.log | awk '{s+=$4} END{print s}')
failed=$(grep -E "^test result:" $d/confirm_suite_with.log | awk '{s+=$6} END{print s}')
# (3) demo with the change
cp $d/demo.rs etherparse/tests/seed_demo.rs
cargo test --offline -p etherparse --test seed_demo > $d/confirm_demo_with.log 2>&1
with_rc=$?
# (4) demo without the change
git apply -R $d/patch.diff
cargo test --offline -p etherparse --test seed_demo > $d/confirm_demo_without.log 2>&1
without_rc=$?
echo "$id/$n: suite_rc=$suite_rc passed=$passed failed=$failed demo_with_rc=$with_rc demo_without_rc=$without_rc" | tee -a $log
if [ $suite_rc -eq 0 ] && [ "$failed" = "0" ] && [ $with_rc -ne 0 ] && [ $without_rc -eq 0 ]; then
  out=/verif/seeded/$id-$n
  mkdir -p $out
  cp $d/patch.diff $d/demo.rs $out/
  [ -f $d/notes.md ] && cp $d/notes.md $out/notes.md
  echo "$id/$n: CONFIRMED passed=$passed" | tee -a $log
  echo "{\"passed\": $passed, \"failed\": $failed, \"demo_with_rc\": $with_rc, \"demo_without_rc\": $without_rc}" > $out/confirm.json
  exit 0
fi
echo "$id/$n: NOT CONFIRMED" | tee -a $log
exit 1
