import sys, time; sys.path.insert(0, "/verif")
from engine import pipeline, rules_chain
from engine.props.c07 import inv_from_e1
F=pipeline.load_facts('std')
e1=pipeline.ensure_e1('std','quick')
t=time.time()
out=rules_chain.run(F, inv_from_e1(e1), e1.get('summaries'))
print('t=%.1f'%(time.time()-t))
for rec in out:
    print('%-8s %-60s paths=%s ok=%s err=%s ann=%s %s' % (rec['rule'], rec['what'], rec.get('paths'), rec.get('ok'), rec.get('err'), rec.get('announce'), 'OK' if not rec['problems'] else 'FAIL'))
    for p in rec['problems'][:4]: print('        ', p[:300])
