import sys; sys.path.insert(0, "/verif")
import json, collections
from engine import pipeline, rules_len
from engine.lin import lin_from_key
F=pipeline.load_facts('std')
e1=pipeline.ensure_e1('std','quick')
inv={sp:{"top":v["top"],"disjuncts":[[lin_from_key(k) for k in d] for d in v["disjuncts"]],"atoms":v.get("atoms",{})} for sp,v in e1["inv"].items()}
res=rules_len.run(F,inv)
tab=collections.defaultdict(set)
for r in res:
    for rec in r['records']:
        if rec['rule']=='gda':
            mod=rec['sp'].split(':')[0].replace('etherparse/src/','')
            tab[mod].add((rec['layer'],rec['len_source'],rec['relation']))
for m in sorted(tab): print(m, sorted(tab[m], key=str))
