import sys, time
sys.path.insert(0,'/verif')
from engine import pipeline, crate
from engine.props.c07 import inv_from_e1
F=pipeline.load_facts('std')
e1=pipeline.ensure_e1('std','quick')
inv=inv_from_e1(e1)
roots=e1['roots']
int_fns=[r for r in roots if crate.int_returning(F,r)]
t=time.time()
rp=crate.run_pass(F,int_fns,inv,False,2,20000,None,rootset=roots,summaries={},collect_prov=True)
print('pass',time.time()-t)
rs=sorted(rp,key=lambda r:-r.get('time',0))
for r in rs[:10]: print(r['root'], r.get('time'), r.get('steps'))
