import sys; sys.path.insert(0, "/verif")
import pickle,sys,collections
sites,inv=pickle.load(open('/tmp/e1_sites.pkl','rb'))
kind=sys.argv[1] if len(sys.argv)>1 else None
pat=sys.argv[2] if len(sys.argv)>2 else ''
n=0
byfn=collections.Counter()
for k,s in sorted(sites.items(), key=lambda x:(x[0][0],str(x[0][1]))):
    if not s['fail']: continue
    if kind and kind!='all' and k[2]!=kind: continue
    if pat not in k[0]: continue
    byfn[k[0]]+=1
    f=[x for x in s['fail'] if x][0]
    print(k[2],k[0],k[1],s['sp'].replace('etherparse/src/',''),k[3],'| root',f[0],'| ctx',[c[0].split('::')[-1] for c in f[1]],'|',f[2][:int(sys.argv[3]) if len(sys.argv)>3 else 250], '| expn', s['expn'])
    n+=1
print(n)
