#!/bin/bash
# usage: dev/seedtest.sh <seed dir containing patch.diff> <check ids...>
set -u
SD=$1; shift
NAME=$(echo $SD | tr '/' '_' | sed 's/^_//')
WT=/tmp/st_$NAME
git -C /repo worktree remove --force $WT >/dev/null 2>&1
git -C /repo worktree add -q --detach $WT HEAD || exit 3
if ! git -C $WT apply $SD/patch.diff; then echo "PATCH DOES NOT APPLY: $SD"; git -C /repo worktree remove --force $WT; exit 4; fi
for id in "$@"; do
  echo "=== $SD check $id"
  VERIF_REPO=$WT /verif/verif check $id 2>/dev/null | grep -v "^      " | grep "violation\|KNOWN\|ERROR\|^C[0-9][0-9]:" | cut -c1-400
done
git -C /repo worktree remove --force $WT
