import sys, time; sys.path.insert(0, "/verif")
from engine import pipeline, crate
from engine.absint import Interp
from engine.models import M
from engine.lin import show_lin, lin_from_key
from engine.props.c07 import inv_from_e1
F=pipeline.load_facts('std')
e1=pipeline.ensure_e1('std','quick')
inv=inv_from_e1(e1)
b=F.bodies[sys.argv[1]]
I=Interp(F,M,inv,max_depth=2)
I.rootset=frozenset(e1["roots"]); I.summaries=e1.get("summaries") or {}
I.inv_targets=crate.inv_targets(F)
I.analyze_root(b)
for sp,ds in I.inv_records.items():
    print(sp,len(ds))
    for d in ds[:12]: print('    ', ' ; '.join(show_lin(l)+'>=0' for l in d)[:900])
