import sys, time; sys.path.insert(0, "/verif")
from engine import pipeline
from engine.absint import Interp
from engine.models import M
from engine.lin import show_lin, lin_from_key
from engine.props.c07 import inv_from_e1
F=pipeline.load_facts('std')
e1=pipeline.ensure_e1('std','quick')
inv=inv_from_e1(e1)
b=F.bodies[sys.argv[1]]
I=Interp(F,M,inv,max_depth=int(sys.argv[2]),budget=int(sys.argv[3]))
I.rootset=frozenset(e1["roots"]); I.summaries=e1.get("summaries") or {}
t=time.time()
I.analyze_root(b)
print('time',time.time()-t,'steps',I.steps)
for o in I.sink.obligs:
    if not o.proved: print("UNPROVED",o.kind,o.fn,o.sp,o.desc,'|',o.detail[:300])
for e in I.sink.events:
    if e[0] in ('abort',): print(e)
print('opaque', sorted(set((x[0]) for x in I.opaque_calls))[:40])
