import sys; sys.path.insert(0, "/verif")
import sys
from engine.facts import Facts
from engine.absint import Interp
from engine.models import M
from engine.crate import inv_targets
from engine.lin import show_lin, Lin, reg_atom, I64MAX
import engine.inv as inv
F=Facts('/tmp/facts/etherparse.json')
T=inv_targets(F)
b=F.bodies[sys.argv[1]]
I=Interp(F,M,{sp:{"disjuncts":[],"bottom":True} for sp in T},max_depth=2)
I.inv_targets=T
orig=inv.project
def dbg(cons, keep, max_cons=400):
    print("CONS", [(show_lin(Lin(dict(t),c))) for t,c in cons])
    r=orig(cons,keep,max_cons)
    print("RES",[(show_lin(Lin(dict(t),c))) for t,c in r])
    return r
inv.project=dbg
I.analyze_root(b)
print(I.inv_records)
