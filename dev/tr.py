import sys, time; sys.path.insert(0, "/verif")
from engine import pipeline, rules_agree
from engine.props.c07 import inv_from_e1
F=pipeline.load_facts('std')
e1=pipeline.ensure_e1('std','quick')
out=rules_agree.run_transport(F, inv_from_e1(e1), e1.get('summaries'))
for rec in out:
    print('%-9s %-75s paths=%s ok=%s err=%s %s (%.1fs)' % (rec['rule'], rec['what'], rec.get('paths'), rec.get('ok'), rec.get('err'), 'OK' if not rec['problems'] else 'FAIL', rec.get('time',0)))
    for p in rec['problems'][:4]: print('        ', p[:300])
