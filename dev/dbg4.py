import sys; sys.path.insert(0, "/verif")
import sys
from engine.facts import Facts
from engine.crate import run_pass, inv_targets, select_roots, build_invariants
from engine.lin import lin_from_key, show_lin
F=Facts('/tmp/facts/etherparse.json')
T=inv_targets(F)
want=sys.argv[1]
inv={sp:{"disjuncts":[],"bottom":True} for sp in T}
roots=select_roots(F)
for rnd in range(int(sys.argv[2]) if len(sys.argv)>2 else 1):
    res=run_pass(F,roots,inv,True)
    for r in res:
        for sp,ds in r['inv'].items():
            if want in sp:
                for d in ds:
                    print(rnd, r['root'],'->',len(d), ' ; '.join(show_lin(lin_from_key(k)) for k in d)[:int(sys.argv[3]) if len(sys.argv)>3 else 300])
    inv=build_invariants(res,inv,T)
