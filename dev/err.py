import sys, time, collections
sys.path.insert(0,'/verif')
from engine import pipeline, rules_err
from engine.props.c07 import inv_from_e1
F=pipeline.load_facts('std')
e1=pipeline.ensure_e1('std','quick')
only=sys.argv[1] if len(sys.argv)>1 else None
t=time.time()
out=rules_err.run(F, inv_from_e1(e1), only=only)
print('fns',len(out),'t=%.1f'%(time.time()-t))
cnt=collections.Counter()
for r in out:
    if r['err']: print('ERR',r['fn'],r['err'].strip().splitlines()[-3:])
    if r['aborted']: print('ABORT',r['fn'])
    for rec in r['records']:
        cnt[(rec['rule'], bool(rec['problems']))]+=1
        if rec['problems'] or only:
            print(rec['rule'],rec['fn'],'|',rec['what'],'|',rec['sp'],rec.get('paths'),rec.get('ok_paths'))
            for p in rec['problems']: print('     ',p[:300])
print(cnt)
