import sys, time; sys.path.insert(0, "/verif")
from engine import pipeline, rules_cksum
from engine.props.c07 import inv_from_e1
F=pipeline.load_facts('std')
e1=pipeline.ensure_e1('std','quick')
t=time.time()
out=rules_cksum.run(F, inv_from_e1(e1), e1.get('summaries'), only=sys.argv[1] if len(sys.argv)>1 else None)
print('t=%.1f'%(time.time()-t))
for r in out:
    if r['err']: print('ERR', r['fn'], r['err'].strip().splitlines()[-4:])
    for rec in r['records']:
        print('%-70s paths=%s %s (%.1fs)' % (rec['fn'].split('::',1)[1], rec.get('paths'), 'OK' if not rec['problems'] else 'FAIL', r['time']))
        for p in rec['problems'][:3]: print('        ', p[:300])
