import sys, re
sys.path.insert(0,'/verif')
from engine import pipeline, crate
from engine.axioms import load_axioms
F=pipeline.load_facts('std')
pref=sys.argv[1]
orig=crate.select_roots
crate.select_roots=lambda F: [r for r in orig(F) if r.startswith(pref)]
pat=sys.argv[2] if len(sys.argv)>2 else ''
def log(s):
    if 'inv round' in s or ('changed' in s) or (pat and pat in s) or s.lstrip().startswith('OR'):
        print(s[:int(sys.argv[3]) if len(sys.argv)>3 else 300])
res=crate.analyze_crate(F, log=log, axioms=load_axioms(), max_rounds=int(sys.argv[4]) if len(sys.argv)>4 else 10)
