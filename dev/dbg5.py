import sys; sys.path.insert(0, "/verif")
import pickle
from engine.facts import Facts
from engine.absint import Interp
from engine.models import M
from engine.crate import inv_targets
from engine.lin import show_lin, Lin
import engine.inv as inv
F=Facts('/tmp/facts/etherparse.json')
T=inv_targets(F)
sites,INV=pickle.load(open('/tmp/e1_sites.pkl','rb'))
b=F.bodies[sys.argv[1]]
I=Interp(F,M,INV,max_depth=2)
I.inv_targets=T
orig=inv.extract_disjunct
def dbg(I,st,value,root_key=None,drop_fields=()):
    if sys.argv[2] in value.path:
        print("VALUE",repr(value)[:300])
        print("FACTS",[show_lin(f) for f in st.facts][:30], "NEQS",[show_lin(f) for f in st.neqs][:10])
    r=orig(I,st,value,root_key,drop_fields)
    if sys.argv[2] in value.path: print("RES",r)
    return r
inv.extract_disjunct=dbg
I.analyze_root(b)
