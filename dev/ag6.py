import sys, time; sys.path.insert(0, "/verif")
from engine import pipeline, rules_agree
from engine.props.c07 import inv_from_e1
F=pipeline.load_facts('std')
e1=pipeline.ensure_e1('std','quick')
t=time.time()
out=rules_agree.run(F, inv_from_e1(e1), e1.get('summaries'), only=sys.argv[1] if len(sys.argv)>1 else None, rules=("dispatch",), ipv6=True)
print('t=%.1f'%(time.time()-t))
for rec in out:
    print('%-9s %-95s paths=%s ok=%s err=%s %s (%.1fs)' % (rec['rule'], rec['what'], rec.get('paths'), rec.get('ok'), rec.get('err'), 'OK' if not rec['problems'] else 'FAIL', rec.get('time',0)))
    for p in rec['problems'][:4]: print('        ', p[:300])
