import sys
sys.path.insert(0,'/verif')
from engine import pipeline
e1=pipeline.ensure_e1('std','quick')
pat=sys.argv[1]
for ev in e1['events']:
    if pat in str(ev[1]): print(str(ev)[:400])
