import sys
sys.path.insert(0,'/verif')
from engine import pipeline
from engine.lin import show_lin, lin_from_key
e1=pipeline.ensure_e1('std','quick')
pat=sys.argv[1]
for sp,v in e1['inv'].items():
    if pat in sp:
        print(sp, 'TOP' if v.get('top') else '', len(v['disjuncts']))
        for d in v['disjuncts']:
            print('   OR', ' ; '.join(show_lin(lin_from_key(k))+'>=0' for k in d)[:1500])
