import sys; sys.path.insert(0, "/verif")
import pickle
from engine.facts import Facts
from engine.absint import Interp
from engine.models import M
from engine.crate import inv_targets
from engine.lin import show_lin, Lin
import engine.inv as inv
F=Facts('/tmp/facts/etherparse.json')
T=inv_targets(F)
sites,INV=pickle.load(open('/tmp/e1_sites.pkl','rb'))
b=F.bodies[sys.argv[1]]
I=Interp(F,M,INV,max_depth=2)
I.inv_targets=T
orig=inv.project
cnt=[0]
def dbgp(cons, keep, max_cons=400):
    cnt[0]+=1
    r=orig(cons,keep,max_cons)
    if any(sys.argv[2] in repr(t) for t,c in cons):
        print("CONS", [(show_lin(Lin(dict(t),c))) for t,c in cons])
        print("RES",[(show_lin(Lin(dict(t),c))) for t,c in r])
    return r
inv.project=dbgp
I.analyze_root(b)
