import sys, time; sys.path.insert(0, "/verif")
from engine import pipeline
from engine.sib import Sib
from engine.values import *
from engine.lin import show_lin, Lin
from engine.props.c07 import inv_from_e1
F=pipeline.load_facts('std')
e1=pipeline.ensure_e1('std','quick')
S=Sib(F, inv_from_e1(e1), e1.get('summaries'), depth=3, budget=int(sys.argv[2]) if len(sys.argv)>2 else 400000)
fn=F.bodies[sys.argv[1]]
I=S.interp(); I.opts["unroll"]=10; I.opts["io_sim"]=True
st=State()
args=[I.materialize(st, fn["locals"][i+1][0], ("a",i)) for i in range(fn["arg_count"])]
st.notes["wlog"]=()
t=time.time()
fin,probs,I=S.run(fn, st, args, I)
print('finals',len(fin),'steps',I.steps,'t=%.1f'%(time.time()-t),probs, [e for e in I.sink.events if e[0] in ('unroll_bound','abort')][:3])
import collections
c=collections.Counter()
for (s1,rv) in fin:
    c[S.result_variant(I,s1,rv)]+=1
print(c)
