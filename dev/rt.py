import sys, time; sys.path.insert(0, "/verif")
from engine import pipeline, crate
from engine.absint import Interp
from engine.models import M
from engine.values import *
from engine.lin import show_lin, Lin
from engine.props.c07 import inv_from_e1
F=pipeline.load_facts('std')
e1=pipeline.ensure_e1('std','quick')
inv=inv_from_e1(e1)
enc=F.bodies[sys.argv[1]]; dec=F.bodies[sys.argv[2]]
def mk():
    I=Interp(F,M,inv,max_depth=4,budget=200000)
    I.rootset=frozenset(); I.summaries={}
    I.opts["bitor_oblig"]=False; I.opts["cast_oblig"]=False
    I.keep_finals=True
    return I
I=mk()
st=State()
a0=I.materialize(st, enc["locals"][1][0], ("rt","self"))
orig=I.load(st, ("place", a0.fid, a0.local, a0.projs))
print('orig', repr(orig)[:300])
I.new_frame(st, enc, [a0], None, None)
I.explore([st], None)
print('enc finals', len(I.finals))
for (s1, rv) in I.finals:
    print('  ret', repr(rv)[:600])
    I2=mk()
    s1.frames=[]
    dt=I2.rt(dec["locals"][1][0])
    arg=rv
    if isinstance(dt,dict) and dt["k"]=="ref":
        # put array on heap and pass a region
        oid=("h",("rt","buf")); s1.heap[oid]=rv
        n=rv.n if isinstance(rv,VArray) else None
        arg=VRegion(("place",0,oid,()), Lin.const(0), Lin.const(n) if n is not None else rv.len, False)
    I2.new_frame(s1, dec, [arg], None, None)
    I2.explore([s1], None)
    print('dec finals', len(I2.finals))
    for (s2, r2) in I2.finals:
        print('    dec ret', repr(r2)[:700])
        for o in I2.sink.obligs:
            if not o.proved: print('      UNPROVED', o.kind, o.desc, o.detail[:200])
