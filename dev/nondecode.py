import sys, collections
sys.path.insert(0,'/verif')
from engine import pipeline, scope
from engine.crate import stable_keys
F=pipeline.load_facts('std')
e1=pipeline.ensure_e1('std','quick')
reach=scope.reachable(F, scope.decode_roots(F))
fails=collections.Counter()
tot=collections.Counter()
for k,s in e1['sites'].items():
    fn,site,kind,desc=k
    if fn in reach: continue
    tot[kind]+=1
    if s['fail']:
        fails[(fn,kind,desc)]+=1
print(tot)
for (fn,kind,desc),n in sorted(fails.items()):
    print(fn,'|',kind,'|',desc[:80])
print(len(fails))
