import sys, time; sys.path.insert(0, "/verif")
from engine import pipeline, rules_size
from engine.props.c07 import inv_from_e1
F=pipeline.load_facts('std')
e1=pipeline.ensure_e1('std','quick')
t=time.time()
for rec in rules_size.run_entry(F, inv_from_e1(e1), e1.get('summaries'), only=sys.argv[1] if len(sys.argv)>1 else None):
    print('%-6s %-70s paths=%s %s (%.1fs)' % (rec['rule'], rec['what'].split('<')[1], rec.get('paths'), 'OK' if not rec['problems'] else 'FAIL', rec.get('time',0)))
    for p in rec['problems'][:4]: print('        ', p[:300])
print('t=%.1f'%(time.time()-t))
