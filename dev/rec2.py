import sys, time; sys.path.insert(0, "/verif")
from engine import pipeline, crate
from engine.absint import Interp
from engine.models import M
from engine.lin import show_lin, lin_from_key
from engine.props.c07 import inv_from_e1
F=pipeline.load_facts('std')
e1=pipeline.ensure_e1('std','quick')
inv=inv_from_e1(e1)
name=sys.argv[1]; needle=sys.argv[2]
for r in e1['roots']:
    if not r.startswith('packet_builder::'): continue
    b=F.bodies[r]
    I=Interp(F,M,inv,max_depth=2)
    I.rootset=frozenset(e1["roots"]); I.summaries=e1.get("summaries") or {}
    I.inv_targets=crate.inv_targets(F)
    try: I.analyze_root(b)
    except Exception as e: print('ERR',r,e); continue
    for sp,ds in I.inv_records.items():
        if name in sp:
            for d in ds:
                s=' ; '.join(show_lin(l)+'>=0' for l in d).replace('packet_builder::PacketBuilderStep','PBS')
                if needle in s: print(r,'|',sp,'|',s[:500])
