import sys; sys.path.insert(0, "/verif")
from engine import pipeline, rules_len
from engine.lin import lin_from_key, show_lin
F=pipeline.load_facts('std')
e1=pipeline.ensure_e1('std','quick')
inv={sp:{"top":v["top"],"disjuncts":[[lin_from_key(k) for k in d] for d in v["disjuncts"]],"atoms":v.get("atoms",{})} for sp,v in e1["inv"].items()}
I=rules_len.LenInterp(F,inv,"offset"); I.summaries=e1['summaries']
I.analyze_root(F.bodies[sys.argv[1]])
seen=set()
for r in I.records:
    k=(r['sp'],r.get('callee'),r.get('added'),r.get('expected'),tuple(r['problems']),r.get('inconclusive'))
    if k in seen: continue
    seen.add(k); print(k)
print([e for e in I.sink.events if e[0]=='abort'])
print(e1['summaries'].get('packet_headers::read_transport'), e1['summaries'].get('net::ip_headers::IpHeaders::from_slice'))
