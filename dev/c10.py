import sys, time; sys.path.insert(0, "/verif")
from engine import pipeline
from engine.sib import Sib
from engine.values import *
from engine.lin import show_lin, Lin
from engine.props.c07 import inv_from_e1
F=pipeline.load_facts('std')
e1=pipeline.ensure_e1('std','quick')
inv=inv_from_e1(e1)
S=Sib(F, inv, e1.get('summaries'), depth=int(sys.argv[1]), budget=int(sys.argv[2]))
fw=F.bodies['packet_builder::final_write_with_net']; fs=F.bodies['packet_builder::final_size']
I=S.interp()
flows=I.typestate_flows()
names=sorted(flows[('packet_builder::final_write_with_net',0)])
tot=0
for nm in names[:int(sys.argv[3]) if len(sys.argv)>3 else 99]:
    I=S.interp(); I.opts.update({"io_sim":True,"io_ok_only":True})
    st=State()
    b=I.materialize(st, fw["locals"][1][0], ("b",0))
    I.assume_invariant(st, nm, b.key)
    w=I.materialize(st, fw["locals"][2][0], ("b",1))
    p=I.materialize(st, fw["locals"][3][0], ("b",2))
    st.notes["wlog"]=()
    t=time.time()
    fin,probs,I=S.run(fw, st, [b,w,p], I)
    ok=[(s,rv) for (s,rv) in fin if S.result_variant(I,s,rv)=='Ok']
    print(nm.split('<')[1], 'finals',len(fin),'ok',len(ok),'steps',I.steps,'t=%.1f'%(time.time()-t),probs[:1])
    tot+=len(ok)
print(tot)
