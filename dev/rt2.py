import sys, time; sys.path.insert(0, "/verif")
from engine import pipeline
from engine.sib import Sib
from engine.values import *
from engine.lin import show_lin, Lin
from engine.props.c07 import inv_from_e1
F=pipeline.load_facts('std')
e1=pipeline.ensure_e1('std','quick')
S=Sib(F, inv_from_e1(e1), e1.get('summaries'))
pat=sys.argv[1] if len(sys.argv)>1 else ''
types=sorted({b['path'].rsplit('::',1)[0] for b in F.body_list if b['path'].endswith('::to_bytes') and b['kind']!='Closure'})
for T in types:
    if pat not in T: continue
    enc=F.bodies[T+'::to_bytes']
    for dn in ('from_bytes','from_slice'):
        dec=F.bodies.get(T+'::'+dn)
        if dec is None: continue
        t0=time.time()
        I=S.interp(); st=State()
        a0=I.materialize(st, enc["locals"][1][0], ("rt","self"))
        orig=I.load(st, ("place", a0.fid, a0.local, a0.projs)) if isinstance(a0,VRef) else a0
        starts=S.split_enums(I, st, a0)
        allfin=[]
        for (s0,desc) in starts:
            orig0=I.load(s0, ("place", a0.fid, a0.local, a0.projs)) if isinstance(a0,VRef) else a0
            I0=S.interp()
            fin,probs,I0=S.run(enc, s0, [a0], I0)
            allfin += [(s1,rv,orig0,desc) for (s1,rv) in fin]
        print('==',T,dn,'starts',len(starts),'enc finals',len(allfin),probs[:2])
        for (s1,rv,orig,desc) in allfin:
            inp=S.as_input(I, s1, rv, dec["locals"][1][0], "buf")
            if inp is None: print('   cannot feed', repr(rv)[:100]); continue
            arg,n=inp
            fin2,probs2,I2=S.run(dec, s1, [arg])
            if probs2: print('   dec problems',probs2[:3])
            for (s2,r2) in fin2:
                cls=S.result_variant(I2,s2,r2)
                if cls!='Ok':
                    print('   decode result',desc,cls, repr(r2)[:200], '| facts', I2.show_facts(s2, Lin.const(0))[:200]); continue
                hv=r2
                if isinstance(r2,VAdt) and r2.path=='core::result::Result': hv=r2.fields[0]
                rest=None
                if isinstance(hv,VTuple): rest=hv.fields[1]; hv=hv.fields[0]
                d=S.eq(I2,s2,orig,hv,T.rsplit('::',1)[1])
                if rest is not None and isinstance(rest,VRegion) and not s2.entails(-rest.len): d.append('rest not empty: '+show_lin(rest.len))
                print('   OK path:', desc, 'EQUAL' if not d else d[:4])
        print('   t=%.1f'%(time.time()-t0))
