import sys; sys.path.insert(0, "/verif")
import pickle, time
from engine.facts import Facts
from engine.crate import run_pass, select_roots
F=Facts('/tmp/facts/etherparse.json')
sites,inv=pickle.load(open('/tmp/e1_sites.pkl','rb'))
t=time.time()
res=run_pass(F, select_roots(F), inv, False)
print("pass %.1fs"%(time.time()-t), "cpu", sum(r['time'] for r in res))
for r in sorted(res, key=lambda r:-r['time'])[:25]:
    print("%.1f"%r['time'], r['steps'], r['root'])
