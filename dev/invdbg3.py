import sys, os, pickle
sys.path.insert(0,'/verif')
from engine import pipeline, crate
from engine.axioms import load_axioms
F=pipeline.load_facts('std')
orig=crate.build_invariants
rnd=[0]
def bi(results, old, names):
    r=orig(results, old, names)
    ser={sp:{"top":bool(v.get("top")),"bottom":bool(v.get("bottom")),"disjuncts":[[l.key() for l in d] for d in v["disjuncts"]],"atoms":v.get("atoms",{})} for sp,v in r.items()}
    pickle.dump(ser, open('/tmp/inv_round%d.pkl'%rnd[0],'wb')); rnd[0]+=1
    return r
crate.build_invariants=bi
crate.analyze_crate(F, log=lambda s: None, axioms=load_axioms(), max_rounds=int(sys.argv[1]))
