import sys; sys.path.insert(0, "/verif")
import sys
from engine.facts import Facts
from engine.absint import Interp
from engine.models import M
from engine.crate import inv_targets, is_external_root, build_invariants
from engine.lin import show_lin
F=Facts('/tmp/facts/etherparse.json')
T=inv_targets(F)
pat=sys.argv[1]; want=sys.argv[2]
inv={sp:{"disjuncts":[],"bottom":True} for sp in T}
roots=[b for b in F.body_list if not b.get('unsafe') and pat in b['path']]
for rnd in range(3):
    results=[]
    for b in roots:
        I=Interp(F,M,inv,max_depth=2)
        I.inv_targets=T
        I.analyze_root(b)
        recs={}
        for sp,ds in I.inv_records.items():
            recs[sp]=[[l.key() for l in d] for d in ds]
            if want in sp:
                for d in ds:
                    print(rnd, b['path'], '->', [show_lin(l) for l in d])
        results.append({"inv":recs})
    inv=build_invariants(results, inv, T)
    for sp,v in inv.items():
        if want in sp: print("ROUND",rnd,sp,v)
