import sys; sys.path.insert(0, "/verif")
import pickle
from engine.facts import Facts
from engine.absint import Interp
from engine.models import M
from engine.lin import show_lin
F=Facts('/tmp/facts/etherparse.json')
try:
    sites,inv=pickle.load(open('/tmp/e1_sites.pkl','rb'))
except Exception: inv={}
b=F.bodies[sys.argv[1]]
I=Interp(F,M,inv,max_depth=int(sys.argv[3]) if len(sys.argv)>3 else 2)
I.analyze_root(b)
pat=sys.argv[2] if len(sys.argv)>2 else ''
for o in I.sink.obligs:
    if (not o.proved) and pat in (o.sp or ''):
        print("UNPROVED",o.kind,o.fn,o.site,o.sp,o.desc,'|',o.detail[:1500],'| ctx',[c[0].split('::')[-1] for c in o.ctx])
for e in I.sink.events:
    if e[0] in ('abort','loop','unmodelled'): print(e)
print(len(I.sink.obligs), I.steps)
