import sys; sys.path.insert(0, "/verif")
from engine import pipeline
from engine.absint import Interp
from engine.models import M
from engine.lin import show_lin, lin_from_key
from engine.axioms import load_axioms, trusted_ctx_set
F=pipeline.load_facts('std')
e1=pipeline.ensure_e1('std','quick')
inv={sp:{"top":v["top"],"disjuncts":[[lin_from_key(k) for k in d] for d in v["disjuncts"]],"atoms":v.get("atoms",{})} for sp,v in e1["inv"].items()}
b=F.bodies[sys.argv[1]]
I=Interp(F,M,inv,max_depth=int(sys.argv[3]) if len(sys.argv)>3 else 2)
I.rootset=frozenset(e1["roots"])
I.analyze_root(b)
pat=sys.argv[2] if len(sys.argv)>2 else ''
for o in I.sink.obligs:
    if (not o.proved) and pat in (o.sp or ''):
        print("UNPROVED",o.kind,o.fn,o.site,o.sp,o.desc,'|',o.detail[:1500],'| ctx',[c[0].split('::')[-1] for c in o.ctx])
for e in I.sink.events:
    if e[0] in ('abort','loop','unmodelled','loop_term'): print(e)
print(len(I.sink.obligs), I.steps)
