#!/bin/bash
# usage: dev/benigntest.sh <dir with patch.diff>   - every registered check must stay silent on a behaviour-preserving change
SD=$1
WT=/tmp/bt_$(basename $(dirname $SD/x))_$$
git -C /repo worktree add -q --detach $WT HEAD || exit 3
if ! git -C $WT apply $SD/patch.diff; then echo "PATCH DOES NOT APPLY: $SD"; git -C /repo worktree remove --force $WT; exit 4; fi
echo "=== $SD"
for id in C01 C02 C03 C04 C05 C06 C07 C08 C09 C10 C12 C13 C14 C15 C16 C17; do
  VERIF_REPO=$WT /verif/verif check $id 2>/dev/null | grep -v "^      " | grep "violation\|ERROR\|^C[0-9][0-9]:" | cut -c1-300
done
git -C /repo worktree remove --force $WT
