import sys; sys.path.insert(0, "/verif")
import time, collections
from engine import pipeline, rules_val
from engine.lin import lin_from_key
F=pipeline.load_facts('std')
e1=pipeline.ensure_e1('std','quick')
inv={sp:{"top":v["top"],"disjuncts":[[lin_from_key(k) for k in d] for d in v["disjuncts"]],"atoms":v.get("atoms",{})} for sp,v in e1["inv"].items()}
t=time.time()
res=rules_val.run(F,inv)
print("fns",len(res),"%.1fs"%(time.time()-t), "errors", sum(1 for r in res if r['err']), "aborted", [r['fn'] for r in res if r['aborted']])
for r in res:
    if r['err']: print(r['fn'], r['err'][-600:]); break
c=collections.Counter()
for r in res:
    for rec in r['records']:
        c[(rec['rule'], bool(rec['problems']))]+=1
print(c)
seen=set()
for r in res:
    for rec in r['records']:
        if rec['problems']:
            k=(rec['rule'],rec['fn'],tuple(rec['problems']))
            if k in seen: continue
            seen.add(k)
            print(rec['rule'], rec['fn'], rec['sp'], '|', ' ## '.join(rec['problems'])[:500])
