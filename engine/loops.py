"""Loop handling: widening on demand with Houdini-style candidate invariants."""
from .lin import Lin, reg_atom, static_bounds, I64MAX
from .values import *
from .absint import VByteRef, AnalysisAbort
from .models import VIter
from .facts import INT_TYPES


def same_value(a, b, d=0):
    if a is b:
        return True
    if type(a) is not type(b):
        return False
    if isinstance(a, VInt):
        return a.lin == b.lin
    if isinstance(a, VBool):
        return a.f == b.f
    if isinstance(a, VRegion):
        return a.origin == b.origin and a.off == b.off and a.len == b.len
    if isinstance(a, VByteRef):
        return a.origin == b.origin and a.off == b.off
    if isinstance(a, VPtr):
        return a.origin == b.origin and a.off == b.off
    if isinstance(a, VRef):
        return (a.fid, a.local, a.projs) == (b.fid, b.local, b.projs)
    if isinstance(a, VAdt):
        if a.path != b.path or a.variant != b.variant:
            return False
        if a.fields is None or b.fields is None:
            return a.fields is None and b.fields is None and a.key == b.key
        return len(a.fields) == len(b.fields) and all(same_value(x, y, d + 1) for x, y in zip(a.fields, b.fields))
    if isinstance(a, (VTuple, VClosure)):
        return len(a.fields) == len(b.fields) and all(same_value(x, y, d + 1) for x, y in zip(a.fields, b.fields))
    if isinstance(a, VArray):
        if (a.init is None) != (b.init is None) or (a.init is not None and a.init != b.init):
            return False
        if a.elems is None or b.elems is None:
            return a.elems is None and b.elems is None and a.key == b.key
        return len(a.elems) == len(b.elems) and all(same_value(x, y, d + 1) for x, y in zip(a.elems, b.elems))
    if isinstance(a, VVec):
        return a.len == b.len and a.cap == b.cap and a.key == b.key
    if isinstance(a, VOpaque):
        return a.key == b.key
    if isinstance(a, VFn):
        return a.path == b.path
    if isinstance(a, VIter):
        if a.kind != b.kind or set(a.d) != set(b.d):
            return False
        for k in a.d:
            x, y = a.d[k], b.d[k]
            if isinstance(x, Lin):
                if not (isinstance(y, Lin) and x == y):
                    return False
            elif not same_value(x, y, d + 1):
                return False
        return True
    return a is b


def int_type_bounds(old):
    lo, hi = static_bounds(old.lin)
    if lo is None or lo < 0 or hi is None:
        return None, None
    for m in (255, 65535, (1 << 32) - 1, (1 << 64) - 1):
        if hi <= m:
            return 0, m
    return 0, None


def widen(I, st, old, cid, disabled, checks, ty=None):
    """replace old by a fresh value constrained by the still-enabled candidate invariants.
    checks: appended (cid, fn(state_at_backedge, value_at_backedge)->bool)"""
    ty = I.rt(ty) if ty is not None else None
    if isinstance(old, VInt):
        lo, hi = (None, None)
        if isinstance(ty, str) and ty in INT_TYPES:
            lo, hi = INT_TYPES[ty]
        X = Lin.atom(reg_atom(("v", ("w", fresh_id())), lo, hi))
        for name, mk in (("ge_entry", lambda x: x - old.lin), ("le_entry", lambda x: old.lin - x)):
            c = cid + (name,)
            if c in disabled:
                continue
            st.add_ge0(mk(X))
            checks.append((c, lambda sb, vb, mk=mk: isinstance(vb, VInt) and sb.entails(mk(vb.lin))))
        # bounded by the length of an array of the frame (an index / fill level kept in range by bounds checks)
        for N in getattr(I, "_loop_bounds", ()):
            c = cid + ("le_const", N)
            if c in disabled or not st.entails(Lin.const(N) - old.lin):
                continue
            st.add_ge0(Lin.const(N) - X)
            checks.append((c, lambda sb, vb, N=N: isinstance(vb, VInt) and sb.entails(Lin.const(N) - vb.lin)))
        return VInt(X)
    if isinstance(old, VBool):
        if old.f[0] == "c":
            c = cid + ("const",)
            if c not in disabled:
                checks.append((c, lambda sb, vb: isinstance(vb, VBool) and sb.holds(vb.f if old.f[1] else f_not(vb.f))))
                return old
        a = reg_atom(("v", ("w", fresh_id())), 0, 1)
        newf = ("ge", Lin.atom(a) - 1)
        c = cid + ("implies_entry",)
        if c not in disabled:
            cj = conj_of(old.f)
            if cj is not None:
                # new => old  :  (a <= 0) or old
                st.disj.append([[Lin.atom(a).scale(-1)], list(cj) + [Lin.atom(a) - 1]])

                def chk(sb, vb):
                    if not isinstance(vb, VBool):
                        return False
                    sub = sb.fork_facts()
                    try:
                        sub.assume(vb.f)
                    except Infeasible:
                        return True
                    ats = set()
                    I.formula_atoms(vb.f, ats)
                    if ats and not sub.feasible(ats):
                        return True
                    return sub.holds(old.f)
                checks.append((c, chk))
        return VBool(newf)
    if isinstance(old, VRegion):
        c0 = cid + ("origin",)
        if c0 in disabled:
            return I.havoc_value(st, old)
        A = Lin.atom(reg_atom(("v", ("woff", fresh_id())), 0, I64MAX))
        B = Lin.atom(reg_atom(("v", ("wlen", fresh_id())), 0, I64MAX))
        checks.append((c0, lambda sb, vb: isinstance(vb, VRegion) and vb.origin == old.origin))
        end0 = old.off + old.len
        for name, mk in (("suffix_eq_a", lambda a, b: a + b - end0), ("suffix_eq_b", lambda a, b: end0 - a - b),
                         ("adv", lambda a, b: a - old.off), ("noadv", lambda a, b: old.off - a)):
            c = cid + (name,)
            if c in disabled:
                continue
            st.add_ge0(mk(A, B))
            checks.append((c, lambda sb, vb, mk=mk: isinstance(vb, VRegion) and sb.entails(mk(vb.off, vb.len))))
        return VRegion(old.origin, A, B, old.mut)
    if isinstance(old, VIter):
        if old.kind == "slice":
            r = widen(I, st, old.d["r"], cid + ("r",), disabled, checks2 := [])
            for c, fn in checks2:
                checks.append((c, lambda sb, vb, fn=fn: isinstance(vb, VIter) and vb.kind == "slice" and fn(sb, vb.d["r"])))
            return VIter("slice", r=r)
        if old.kind == "stepby":
            sv = widen(I, st, VInt(old.d["start"]), cid + ("start",), disabled, checks2 := [], "usize")
            for c, fn in checks2:
                checks.append((c, lambda sb, vb, fn=fn: isinstance(vb, VIter) and vb.kind == "stepby" and fn(sb, VInt(vb.d["start"]))))
            c = cid + ("cong",)
            step = old.d["step"]
            if c not in disabled and step.is_const() and step.c > 0:
                # start' = start0 + step * k
                k = reg_atom(("v", ("wk", fresh_id())), 0, I64MAX)
                st.add_ge0(sv.lin - old.d["start"] - Lin.atom(k).scale(step.c))
                st.add_ge0(old.d["start"] + Lin.atom(k).scale(step.c) - sv.lin)

                def chk(sb, vb, k=k):
                    if not (isinstance(vb, VIter) and vb.kind == "stepby"):
                        return False
                    d = vb.d["start"] - old.d["start"] - Lin.atom(k).scale(step.c)
                    # new = start0 + step*(k+1)  => d == step
                    return sb.entails(d - step.c) and sb.entails(Lin.const(step.c) - d) or (sb.entails(d) and sb.entails(-d))
                checks.append((c, chk))
            return VIter("stepby", start=sv.lin, end=old.d["end"], step=old.d["step"])
        if old.kind == "count":
            nv = widen(I, st, VInt(old.d["n"]), cid + ("n",), disabled, checks2 := [], "usize")
            for c, fn in checks2:
                checks.append((c, lambda sb, vb, fn=fn: isinstance(vb, VIter) and vb.kind == "count" and fn(sb, VInt(vb.d["n"]))))
            return VIter("count", n=nv.lin, ety=old.d.get("ety"))
        if old.kind in ("enumerate", "take"):
            d = dict(old.d)
            inner = widen(I, st, old.d["inner"], cid + ("inner",), disabled, checks2 := [])
            for c, fn in checks2:
                checks.append((c, lambda sb, vb, fn=fn, kind=old.kind: isinstance(vb, VIter) and vb.kind == kind and fn(sb, vb.d["inner"])))
            d["inner"] = inner
            for fld in ("i", "n"):
                if fld in d and isinstance(d[fld], Lin):
                    nv = widen(I, st, VInt(d[fld]), cid + (fld,), disabled, checks3 := [], "usize")
                    for c, fn in checks3:
                        checks.append((c, lambda sb, vb, fn=fn, kind=old.kind, fld=fld: isinstance(vb, VIter) and vb.kind == kind and isinstance(vb.d.get(fld), Lin) and fn(sb, VInt(vb.d[fld]))))
                    d[fld] = nv.lin
            # relational candidate for take(enumerate(..)): index + remaining stays constant
            if old.kind == "take" and isinstance(old.d.get("n"), Lin) and isinstance(old.d["inner"], VIter) \
                    and old.d["inner"].kind == "enumerate" and isinstance(d["inner"], VIter):
                c = cid + ("take_enum_sum",)
                if c not in disabled:
                    tot0 = old.d["n"] + old.d["inner"].d["i"]
                    tot = d["n"] + d["inner"].d["i"]
                    st.add_ge0(tot - tot0)
                    st.add_ge0(tot0 - tot)

                    def chk(sb, vb, tot0=tot0):
                        if not (isinstance(vb, VIter) and vb.kind == "take" and isinstance(vb.d.get("n"), Lin)
                                and isinstance(vb.d["inner"], VIter) and vb.d["inner"].kind == "enumerate"):
                            return False
                        t = vb.d["n"] + vb.d["inner"].d["i"]
                        return sb.entails(t - tot0) and sb.entails(tot0 - t)
                    checks.append((c, chk))
            return VIter(old.kind, **d)
        return VIter("unknown")
    if isinstance(old, VVec):
        c = cid + ("len_ge",)
        key = ("wv", fresh_id())
        hi = old.cap.c if old.cap.is_const() else I64MAX
        L = Lin.atom(reg_atom(("veclen", key), 0, hi))
        cap = old.cap
        c2 = cid + ("cap_same",)
        if c2 in disabled:
            cp = reg_atom(("cap", key), 0, I64MAX)
            cap = Lin.atom(cp)
        else:
            checks.append((c2, lambda sb, vb: isinstance(vb, VVec) and vb.cap == old.cap))
        if not cap.is_const():
            st.add_ge0(cap - L)
        for name, mk in (("len_ge", lambda l: l - old.len), ("len_le", lambda l: old.len - l)):
            cc = cid + (name,)
            if cc in disabled:
                continue
            st.add_ge0(mk(L))
            checks.append((cc, lambda sb, vb, mk=mk: isinstance(vb, VVec) and sb.entails(mk(vb.len))))
        return VVec(old.kind, L, cap, key, old.elems)
    if isinstance(old, VAdt):
        c = cid + ("variant",)
        if old.variant is not None and old.fields is not None and c not in disabled:
            checks.append((c, lambda sb, vb: isinstance(vb, VAdt) and vb.variant == old.variant and vb.fields is not None
                           and len(vb.fields) == len(old.fields)))
            fs = []
            aty = old.ty if old.ty is not None else (ty if isinstance(ty, dict) and ty.get("k") == "adt" else None)
            ftys = None
            if aty is not None:
                try:
                    ftys = I.field_tys(aty, old.variant)
                except Exception:
                    ftys = None
            if ftys is None:
                adt = I.F.adts.get(old.path)
                if adt is not None and not adt["generics"]:
                    ftys = [f["ty"] for f in adt["variants"][old.variant]["fields"]]
            for i, f in enumerate(old.fields):
                sub = []
                fs.append(widen(I, st, f, cid + (i,), disabled, sub, ftys[i] if ftys and i < len(ftys) else None))
                for cc, fn in sub:
                    checks.append((cc, lambda sb, vb, fn=fn, i=i: isinstance(vb, VAdt) and vb.fields is not None and i < len(vb.fields) and fn(sb, vb.fields[i])))
            return VAdt(old.path, old.variant, tuple(fs), old.key, old.ty)
        if old.variant is None:
            # already unknown: a different unknown
            if old.ty is not None:
                return I.materialize(st, old.ty, ("w", fresh_id()), assume_inv=False)
            return VOpaque(None, ("w", fresh_id()))
        return I.havoc_value(st, old)
    if isinstance(old, (VTuple, VClosure)):
        fs = []
        tys = ty["of"] if isinstance(ty, dict) and ty.get("k") == "tuple" else None
        for i, f in enumerate(old.fields):
            sub = []
            fs.append(widen(I, st, f, cid + (i,), disabled, sub, tys[i] if tys and i < len(tys) else None))
            for cc, fn in sub:
                checks.append((cc, lambda sb, vb, fn=fn, i=i: isinstance(vb, (VTuple, VClosure)) and i < len(vb.fields) and fn(sb, vb.fields[i])))
        return VTuple(fs) if isinstance(old, VTuple) else VClosure(old.path, fs)
    if isinstance(old, VArray) and old.init is not None:
        nv = widen(I, st, VInt(old.init), cid + ("init",), disabled, checks2 := [], "usize")
        for c, fn in checks2:
            checks.append((c, lambda sb, vb, fn=fn: isinstance(vb, VArray) and vb.init is not None and fn(sb, VInt(vb.init))))
        return VArray(None, old.n, ("w", fresh_id()), old.ety, init=nv.lin)
    if isinstance(old, VArray):
        if old.elems is not None and len(old.elems) <= 64:
            c = cid + ("elems",)
            if c not in disabled:
                checks.append((c, lambda sb, vb: isinstance(vb, VArray) and vb.elems is not None and len(vb.elems) == len(old.elems)))
                es = []
                for i, f in enumerate(old.elems):
                    sub = []
                    es.append(widen(I, st, f, cid + (i,), disabled, sub, old.ety))
                    for cc, fn in sub:
                        checks.append((cc, lambda sb, vb, fn=fn, i=i: isinstance(vb, VArray) and vb.elems is not None and i < len(vb.elems) and fn(sb, vb.elems[i])))
                return VArray(tuple(es), old.n, old.key, old.ety)
        return VArray(None, old.n, ("w", fresh_id()), old.ety)
    if isinstance(old, (VRef, VFn, VPtr, VByteRef)):
        c = cid + ("same",)
        if c not in disabled:
            checks.append((c, lambda sb, vb: same_value(old, vb)))
            return old
        return VOpaque(None, ("w", fresh_id()))
    return VOpaque(None, ("w", fresh_id()))


def place_type(I, st, p):
    """declared type of place p = (fid, local, projs) when derivable"""
    fid, local, projs = p
    if fid == 0:
        t = None
    else:
        f = I.frame_by_id(st, fid)
        if f is None or not isinstance(local, int) or local >= len(f.body["locals"]):
            return None
        t = I.rt(f.body["locals"][local][0])
    for pr in projs:
        if pr[0] == "f":
            if pr[2] is not None:
                t = I.rt(pr[2])
                continue
            if isinstance(t, dict) and t.get("k") == "adt":
                try:
                    fts = I.field_tys(t, 0)
                    t = I.rt(fts[pr[1]])
                    continue
                except Exception:
                    return None
            if isinstance(t, dict) and t.get("k") == "tuple":
                t = I.rt(t["of"][pr[1]])
                continue
            return None
        if pr[0] == "dc":
            return None
        if pr[0] in ("idx", "cidx"):
            if isinstance(t, dict) and t.get("k") in ("array", "slice"):
                t = I.rt(t["of"])
                continue
            return None
    return t


def modified_places(I, st, fr, blocks):
    """places (fid, local, projs) possibly written inside the loop blocks of frame fr"""
    out = set()
    body = fr.body

    def add_place(place, whole=False):
        fid, local, projs = fr.fid, place["l"], ()
        cur = (fid, local, ())
        for p in place.get("p", ()):
            if p == "deref":
                v = I.load(st, ("place",) + cur)
                if isinstance(v, VRef):
                    cur = (v.fid, v.local, v.projs)
                    continue
                if isinstance(v, (VRegion, VByteRef, VPtr)):
                    o = v.origin
                    if o[0] == "place":
                        out.add((o[1], o[2], o[3]))
                    return
                # unknown pointer: nothing we track
                return
            if isinstance(p, dict) and "f" in p and not whole:
                cur = (cur[0], cur[1], cur[2] + (("f", p["f"], p.get("ty")),))
                continue
            if isinstance(p, dict) and "dc" in p:
                break
            break
        out.add(cur)

    def add_operand(op):
        pl = op.get("c") or op.get("m")
        if pl is None:
            return
        v = None
        try:
            v = I.load(st, I.resolve_place(st, fr, pl))
        except Exception:
            return
        mark_refs(v)

    def mark_refs(v, d=0):
        if isinstance(v, VRef) and v.mut:
            out.add((v.fid, v.local, v.projs))
        elif isinstance(v, VRegion) and v.mut and v.origin[0] == "place":
            out.add((v.origin[1], v.origin[2], v.origin[3]))
        elif isinstance(v, (VTuple, VClosure)) and d < 3:
            for f in v.fields:
                mark_refs(f, d + 1)
        elif isinstance(v, VAdt) and v.fields is not None and d < 3:
            for f in v.fields:
                mark_refs(f, d + 1)

    for b in blocks:
        blk = body["blocks"][b]
        for s in blk["stmts"]:
            if s["s"] == "assign":
                add_place(s["place"])
                rv = s["rvalue"]
                if rv["rv"] in ("ref", "rawptr") and rv.get("mut"):
                    add_place(rv["place"])
                if rv["rv"] == "rawptr":
                    add_place(rv["place"])
            elif s["s"] == "setdiscr":
                add_place(s["place"], whole=True)
            elif s["s"] == "copy_nonoverlapping":
                add_operand(s["dst"])
        t = blk["term"]
        if t["t"] == "call":
            add_place(t["dest"])
            for a in t["args"]:
                add_operand(a)
        elif t["t"] == "drop":
            pass
    # remove places covered by a shorter prefix
    res = []
    for p in sorted(out, key=lambda x: len(x[2])):
        if any(q[0] == p[0] and q[1] == p[1] and p[2][:len(q[2])] == q[2] for q in res):
            continue
        res.append(p)
    return res


def measures_of(v, prefix=()):
    """yield (name, kind, Lin) progress measures inside value v.  kind 'dec' must strictly decrease and is
    bounded below by 0; kind ('inc', bound) must strictly increase and is bounded above by bound"""
    if isinstance(v, VRegion):
        yield prefix + ("len",), "dec", v.len
    elif isinstance(v, VIter):
        if v.kind == "slice":
            yield prefix + ("iter.len",), "dec", v.d["r"].len
        elif v.kind == "count":
            yield prefix + ("iter.n",), "dec", v.d["n"]
        elif v.kind == "stepby":
            yield prefix + ("iter.remaining",), "dec", v.d["end"] - v.d["start"]
        elif v.kind == "take" and isinstance(v.d.get("n"), Lin):
            yield prefix + ("take.n",), "dec", v.d["n"]
            for m in measures_of(v.d["inner"], prefix + ("inner",)):
                yield m
        elif v.kind == "enumerate":
            for m in measures_of(v.d["inner"], prefix + ("inner",)):
                yield m
    elif isinstance(v, VVec):
        if v.cap.is_const():
            yield prefix + ("vec.free",), "dec", v.cap - v.len
    elif isinstance(v, VAdt) and v.fields is not None:
        if v.path.endswith("::Range") and len(v.fields) == 2 and isinstance(v.fields[0], VInt) and isinstance(v.fields[1], VInt):
            yield prefix + ("range.remaining",), "dec", v.fields[1].lin - v.fields[0].lin
        for i, f in enumerate(v.fields):
            for m in measures_of(f, prefix + (i,)):
                yield m
    elif isinstance(v, (VTuple, VClosure)):
        for i, f in enumerate(v.fields):
            for m in measures_of(f, prefix + (i,)):
                yield m
    elif isinstance(v, VBool):
        yield prefix + ("flag",), "flag", v


def lookup_measure(v, name):
    for n, k, l in measures_of(v):
        if n == name:
            return k, l
    return None


def termination_measure(I, head_vals, backs, places):
    """a measure that strictly decreases on every back edge (or None).  Bool flags: the sum of a set of
    flags that are never raised inside the loop and of which at least one is cleared on every back edge."""
    if not backs:
        return "no back edge reachable"
    cands = []
    for p in places:
        hv = head_vals.get(p)
        if hv is None:
            continue
        for name, kind, l in measures_of(hv):
            cands.append((p, name, kind, l))
    # single numeric measure
    for p, name, kind, l in cands:
        if kind != "dec":
            continue
        ok = True
        for sb in backs:
            vb = I.load(sb, ("place",) + p)
            m = lookup_measure(vb, name)
            if m is None or m[0] != "dec":
                ok = False
                break
            # strictly smaller and the head value non-negative is implied by type (lengths / counts)
            if not sb.entails(l - m[1] - 1):
                ok = False
                break
        if ok:
            return "strictly decreasing %s of place _%s%s" % (".".join(str(x) for x in name), p[1],
                                                              "".join("." + str(x[1]) for x in p[2] if x[0] == "f"))
    # flag set: no flag is raised (back => head) and on every back edge one flag that was set is cleared
    flags = [(p, name, l) for p, name, kind, l in cands if kind == "flag"]
    if flags:
        mono = []
        for p, name, hv in flags:
            ok = True
            for sb in backs:
                vb = I.load(sb, ("place",) + p)
                m = lookup_measure(vb, name)
                if m is None or m[0] != "flag":
                    ok = False
                    break
                sub = sb.fork_facts()
                try:
                    sub.assume(m[1].f)
                    ats = set()
                    I.formula_atoms(m[1].f, ats)
                    if ats and not sub.feasible(ats):
                        continue
                except Infeasible:
                    continue
                if not sub.holds(hv.f):
                    ok = False
                    break
            if ok:
                mono.append((p, name, hv))
        if mono:
            allclear = True
            for sb in backs:
                cleared = False
                for p, name, hv in mono:
                    vb = I.load(sb, ("place",) + p)
                    m = lookup_measure(vb, name)
                    if m is None:
                        continue
                    # head flag was set on this path and is now clear
                    if sb.holds(hv.f) and sb.holds(f_not(m[1].f)):
                        cleared = True
                        break
                if not cleared:
                    allclear = False
                    break
            if allclear:
                return "monotone flag set: every back edge clears one of %d flags that are never raised" % len(mono)
    return None


def analyze_loop(I, st, fr, info):
    H = fr.block
    L = info["loops"][H]
    F_fid = fr.fid
    places = modified_places(I, st, fr, L)
    entry_vals = {}
    for p in places:
        entry_vals[p] = I.load(st, ("place",) + p)
    widened = set()  # places that need havoc
    disabled = set()
    sink = I.sink
    max_iter = 40
    I._loop_bounds = tuple(sorted({v.n for v in fr.locals.values() if isinstance(v, VArray) and v.n})[:3])
    for it in range(max_iter):
        snap = (len(sink.obligs), len(sink.events), len(I.finals), len(I.opaque_calls), len(I.pending_closures))
        head = st.fork()
        head.loop_ctx = st.loop_ctx + ((F_fid, H),)
        checks = {}
        for p in places:
            if p in widened:
                ch = []
                nv = widen(I, head, entry_vals[p], (p,), disabled, ch, place_type(I, head, p))
                I.store(head, ("place",) + p, nv)
                checks[p] = ch
        # relational candidates over pairs (vector being filled, iterator being drained):
        #   len(vec) + remaining(iter) does not grow
        pair_checks = []
        vecs = [(p, entry_vals[p]) for p in places if p in widened and isinstance(entry_vals[p], VVec)]
        its = [(p, entry_vals[p]) for p in places if p in widened and isinstance(entry_vals[p], VIter)
               and entry_vals[p].kind in ("count", "slice")]
        for pv, v0 in vecs:
            for pi, i0 in its:
                cid = ("pair", pv, pi)
                if cid in disabled:
                    continue
                rem0 = i0.d["n"] if i0.kind == "count" else i0.d["r"].len
                hv = I.load(head, ("place",) + pv)
                hi_ = I.load(head, ("place",) + pi)
                if not (isinstance(hv, VVec) and isinstance(hi_, VIter) and hi_.kind == i0.kind):
                    continue
                rem = hi_.d["n"] if hi_.kind == "count" else hi_.d["r"].len
                tot0 = v0.len + rem0
                head.add_ge0(tot0 - hv.len - rem)

                def pchk(sb, pv=pv, pi=pi, tot0=tot0, kind=i0.kind):
                    a = I.load(sb, ("place",) + pv)
                    b = I.load(sb, ("place",) + pi)
                    if not (isinstance(a, VVec) and isinstance(b, VIter) and b.kind == kind):
                        return False
                    r = b.d["n"] if kind == "count" else b.d["r"].len
                    return sb.entails(tot0 - a.len - r)
                pair_checks.append((cid, pchk))
        # relational candidates (integer counter, slice being consumed):  x - off(R) stays constant
        ints = [(p, entry_vals[p]) for p in places if p in widened and isinstance(entry_vals[p], VInt)]
        regs = [(p, entry_vals[p]) for p in places if p in widened and isinstance(entry_vals[p], VRegion)]
        if len(ints) * len(regs) <= 12:
            for px, x0 in ints:
                for pr, r0 in regs:
                    cid = ("pairxr", px, pr)
                    if cid in disabled:
                        continue
                    hx = I.load(head, ("place",) + px)
                    hr = I.load(head, ("place",) + pr)
                    if not (isinstance(hx, VInt) and isinstance(hr, VRegion) and hr.origin == r0.origin):
                        continue
                    c0 = x0.lin - r0.off
                    head.add_ge0(hx.lin - hr.off - c0)
                    head.add_ge0(c0 - hx.lin + hr.off)

                    def xchk(sb, px=px, pr=pr, c0=c0, origin=r0.origin):
                        a = I.load(sb, ("place",) + px)
                        b = I.load(sb, ("place",) + pr)
                        if not (isinstance(a, VInt) and isinstance(b, VRegion) and b.origin == origin):
                            return False
                        d = a.lin - b.off - c0
                        return sb.entails(d) and sb.entails(-d)
                    pair_checks.append((cid, xchk))
        if not head.feasible():
            return []

        def stop(s):
            if not s.frames:
                return None
            if not any(f.fid == F_fid for f in s.frames):
                return "exit"
            top = s.frames[-1]
            if top.fid == F_fid:
                if top.block == H:
                    return "back"
                if top.block not in L:
                    return "exit"
            return None

        head_vals = {p: I.load(head, ("place",) + p) for p in places}
        hf = head.frames[-1]
        succ = I.exec_block(head, hf)
        stopped = I.explore(succ, stop)
        backs = [s for r, s in stopped if r == "back"]
        exits = [s for r, s in stopped if r == "exit"]
        changed = False
        for sb in backs:
            for p in places:
                vb = I.load(sb, ("place",) + p)
                if p not in widened:
                    if not same_value(entry_vals[p], vb):
                        widened.add(p)
                        changed = True
                else:
                    for cid, fn in checks.get(p, ()):
                        if cid in disabled:
                            continue
                        try:
                            okk = fn(sb, vb)
                        except Infeasible:
                            okk = True
                        if not okk:
                            disabled.add(cid)
                            changed = True
            for cid, fn in pair_checks:
                if cid in disabled:
                    continue
                try:
                    okk = fn(sb)
                except Infeasible:
                    okk = True
                if not okk:
                    disabled.add(cid)
                    changed = True
        if not changed:
            for s in exits:
                s.loop_ctx = st.loop_ctx
            I.sink.events.append(("loop", fr.body["path"], H, len(places), len(widened), len(disabled), it + 1))
            term = termination_measure(I, head_vals, backs, places)
            I.sink.events.append(("loop_term", fr.body["path"], H, fr.body["blocks"][H]["term"].get("sp"),
                                  term, len(backs), I.ctx(st)))
            return exits
        # retry: discard records of this attempt
        del sink.obligs[snap[0]:]
        del sink.events[snap[1]:]
        del I.finals[snap[2]:]
        del I.opaque_calls[snap[3]:]
        del I.pending_closures[snap[4]:]
    raise AnalysisAbort("loop invariant inference did not converge at bb%d of %s" % (H, fr.body["path"]))
