"""Abstract values, formulas and the path state of the E1 abstract interpreter."""
from .lin import Lin, reg_atom, entails_ge0, fm_unsat, relevant, select_with_defs, ATOM_LO, ATOM_HI, ATOM_MASK, static_bounds, \
    I64MAX, U64MAX, show_lin


class VInt:
    __slots__ = ("lin", "prov")

    def __init__(self, lin, prov=None):
        self.lin = lin
        self.prov = prov  # optional bit provenance (E3)

    def __repr__(self):
        return "Int(%s)" % show_lin(self.lin)


class VBool:
    __slots__ = ("f",)

    def __init__(self, f):
        self.f = f

    def __repr__(self):
        return "Bool(%r)" % (self.f,)


class VRegion:
    """&[u8] / &mut [u8] / &[u8;N]: window (origin, off, len)"""
    __slots__ = ("origin", "off", "len", "mut")

    def __init__(self, origin, off, len_, mut=False):
        self.origin = origin
        self.off = off
        self.len = len_
        self.mut = mut

    def __repr__(self):
        return "Region(%r,off=%s,len=%s%s)" % (self.origin, show_lin(self.off), show_lin(self.len),
                                                ",mut" if self.mut else "")


class VPtr:
    """raw pointer to bytes inside a region: the accessible window is [base_off, base_off+base_len) of
    origin, the pointer points at offset off (absolute, in origin coordinates)."""
    __slots__ = ("origin", "off", "lo", "hi", "mut")

    def __init__(self, origin, off, lo, hi, mut=False):
        self.origin = origin
        self.off = off
        self.lo = lo  # Lin: lowest valid absolute offset (or None = unknown extent)
        self.hi = hi  # Lin: one past highest valid absolute offset (or None)
        self.mut = mut

    def __repr__(self):
        return "Ptr(%r,off=%s,[%s,%s))" % (self.origin, show_lin(self.off),
                                           self.lo and show_lin(self.lo), self.hi and show_lin(self.hi))


class VRef:
    """reference (or raw pointer) to a place: (frame_id, local, projs)"""
    __slots__ = ("fid", "local", "projs", "mut")

    def __init__(self, fid, local, projs=(), mut=False):
        self.fid = fid
        self.local = local
        self.projs = projs
        self.mut = mut

    def __repr__(self):
        return "Ref(f%s,_%s%s)" % (self.fid, self.local, "".join("." + str(p) for p in self.projs))


class VAdt:
    """struct / enum value.  variant None = unknown (lazy, fields materialised from key)."""
    __slots__ = ("path", "variant", "fields", "key", "ty")

    def __init__(self, path, variant, fields, key=None, ty=None):
        self.path = path
        self.variant = variant
        self.fields = fields  # tuple of values (for known variant) or None
        self.key = key
        self.ty = ty

    def __repr__(self):
        return "Adt(%s#%s%r)" % (self.path.split("::")[-1], self.variant, self.fields)


class VTuple:
    __slots__ = ("fields",)

    def __init__(self, fields):
        self.fields = tuple(fields)

    def __repr__(self):
        return "Tuple%r" % (self.fields,)


class VArray:
    __slots__ = ("elems", "n", "key", "ety", "init")

    def __init__(self, elems, n, key=None, ety=None, init=None):
        self.elems = elems  # tuple or None
        self.n = n
        self.key = key
        self.ety = ety
        self.init = init  # [MaybeUninit<u8>; N]: Lin = length of the initialised prefix

    def __repr__(self):
        return "Array(n=%s,%r)" % (self.n, self.elems if self.elems and len(self.elems) <= 8 else "...")


class VVec:
    """ArrayVec / Vec: len (Lin), cap (Lin), init (Lin: number of initialised elements >= len)"""
    __slots__ = ("kind", "len", "cap", "key", "elems", "data")

    def __init__(self, kind, len_, cap, key=None, elems=None, data=None):
        self.kind = kind
        self.len = len_
        self.cap = cap
        self.key = key
        self.elems = elems  # element type
        self.data = data  # contents of a small byte ArrayVec: tuple of CAP values (None = unknown byte)

    def with_len(self, n):
        return VVec(self.kind, n, self.cap, self.key, self.elems, self.data)

    def with_data(self, data, n=None):
        return VVec(self.kind, self.len if n is None else n, self.cap, self.key, self.elems, data)

    def __repr__(self):
        return "Vec(%s,len=%s,cap=%s)" % (self.kind, show_lin(self.len), show_lin(self.cap))


class VFn:
    __slots__ = ("path", "args")

    def __init__(self, path, args=None):
        self.path = path
        self.args = args

    def __repr__(self):
        return "Fn(%s)" % self.path


class VClosure:
    __slots__ = ("path", "fields")

    def __init__(self, path, fields):
        self.path = path
        self.fields = tuple(fields)

    def __repr__(self):
        return "Closure(%s)" % self.path


class VOpaque:
    __slots__ = ("ty", "key")

    def __init__(self, ty, key):
        self.ty = ty
        self.key = key

    def __repr__(self):
        return "Opaque(%r)" % (self.key,)


class VUninit:
    """MaybeUninit / uninitialised memory"""
    __slots__ = ()

    def __repr__(self):
        return "Uninit"


UNINIT = VUninit()

# ---------------------------------------------------------------------------------------------
# formulas:  ('ge', Lin) lin>=0 | ('eq', Lin) | ('ne', Lin) | ('and', f, g) | ('or', f, g) | ('c', bool) | ('unk',)

TRUE = ("c", True)
FALSE = ("c", False)


def f_not(f):
    k = f[0]
    if k == "c":
        return ("c", not f[1])
    if k == "ge":
        return ("ge", (-f[1]) - 1)
    if k == "eq":
        return ("ne", f[1])
    if k == "ne":
        return ("eq", f[1])
    if k == "and":
        return ("or", f_not(f[1]), f_not(f[2]))
    if k == "or":
        return ("and", f_not(f[1]), f_not(f[2]))
    return ("unk",)


def f_simplify(f):
    k = f[0]
    if k in ("ge", "eq", "ne"):
        l = f[1]
        if l.is_const():
            c = l.c
            return ("c", (c >= 0) if k == "ge" else (c == 0) if k == "eq" else (c != 0))
    return f


def cmp_formula(op, a, b):
    """a, b Lin"""
    if op == "Lt":
        return f_simplify(("ge", b - a - 1))
    if op == "Le":
        return f_simplify(("ge", b - a))
    if op == "Gt":
        return f_simplify(("ge", a - b - 1))
    if op == "Ge":
        return f_simplify(("ge", a - b))
    if op == "Eq":
        return f_simplify(("eq", a - b))
    if op == "Ne":
        return f_simplify(("ne", a - b))
    raise ValueError(op)


class Infeasible(Exception):
    pass


_fresh_counter = [0]


def fresh_id():
    _fresh_counter[0] += 1
    return _fresh_counter[0]


def reset_fresh():
    _fresh_counter[0] = 0


class Frame:
    __slots__ = ("fid", "body", "locals", "block", "ret_k", "depth", "callsite", "tysubst", "dirty")

    def __init__(self, fid, body, locals_, block, ret_k, depth, callsite, tysubst=None, dirty=()):
        self.dirty = dirty
        self.fid = fid
        self.body = body
        self.locals = locals_
        self.block = block
        self.ret_k = ret_k
        self.depth = depth
        self.callsite = callsite
        self.tysubst = tysubst

    def copy(self):
        return Frame(self.fid, self.body, dict(self.locals), self.block, self.ret_k, self.depth, self.callsite,
                     self.tysubst, self.dirty)


class State:
    __slots__ = ("frames", "facts", "neqs", "disj", "heap", "next_fid", "loop_ctx", "trace", "unk_bools", "notes")

    def __init__(self):
        self.frames = []
        self.facts = []  # list of Lin (>= 0)
        self.neqs = []  # list of Lin (!= 0)
        self.disj = []  # list of lists of lists of Lin (disjunction of conjunctions)
        self.heap = {}  # objid -> value (frame id 0)
        self.next_fid = 1
        self.loop_ctx = ()
        self.trace = ()
        self.notes = {}

    def fork(self):
        s = State()
        s.frames = [f.copy() for f in self.frames]
        s.facts = list(self.facts)
        s.neqs = list(self.neqs)
        s.disj = list(self.disj)
        s.heap = dict(self.heap)
        s.next_fid = self.next_fid
        s.loop_ctx = self.loop_ctx
        s.trace = self.trace
        s.notes = dict(self.notes)
        return s

    # ---- facts
    def add_ge0(self, lin):
        if lin.is_const():
            if lin.c < 0:
                raise Infeasible()
            return
        lo, hi = static_bounds(lin)
        if lo is not None and lo >= 0:
            return
        if hi is not None and hi < 0:
            raise Infeasible()
        # strengthen with neqs: lin>=0 and lin!=0 -> lin-1>=0
        for n in self.neqs:
            if n == lin:
                lin = lin - 1
                break
        self.facts.append(lin)

    def add_ne0(self, lin):
        if lin.is_const():
            if lin.c == 0:
                raise Infeasible()
            return
        nl = -lin
        # if the sign is already known, the disequality is a strict inequality
        lo, hi = static_bounds(lin)
        if (lo is not None and lo >= 0) or any(f == lin for f in self.facts):
            self.facts = [f for f in self.facts if f != lin]
            self.facts.append(lin - 1)
            return
        if (hi is not None and hi <= 0) or any(f == nl for f in self.facts):
            self.facts = [f for f in self.facts if f != nl]
            self.facts.append(nl - 1)
            return
        if len(lin.t) <= 3:
            if entails_ge0(self.facts, lin):
                self.facts.append(lin - 1)
                return
            if entails_ge0(self.facts, nl):
                self.facts.append(nl - 1)
                return
        self.neqs.append(lin)
        self.neqs.append(nl)

    def assume(self, f):
        k = f[0]
        if k == "c":
            if not f[1]:
                raise Infeasible()
        elif k == "ge":
            self.add_ge0(f[1])
        elif k == "eq":
            self.add_ge0(f[1])
            self.add_ge0(-f[1])
        elif k == "ne":
            self.add_ne0(f[1])
        elif k == "and":
            self.assume(f[1])
            self.assume(f[2])
        elif k == "or":
            ds = []
            for g in flatten_or(f):
                c = conj_of(g)
                if c is not None:
                    ds.append(c)
                else:
                    return  # cannot represent: drop (sound: fewer facts)
            self.disj.append(ds)
        # unk: nothing

    def feasible(self, hint_atoms=None):
        """quick feasibility check of the facts relevant to hint atoms; prunes disjunctions"""
        cons = [(f.t, f.c) for f in self.facts]
        if len(cons) > 30:
            cons = [x for x in cons if len(x[0]) <= 14]
        if hint_atoms is None:
            allat = set()
            for t, c in cons:
                allat.update(t)
            sel, atoms = select_with_defs(cons, allat)
        else:
            sel, atoms = select_with_defs(cons, set(hint_atoms))
        if fm_unsat(sel):
            return False
        # neq check: lin != 0 where facts force lin == 0
        for n in self.neqs:
            if hint_atoms is not None and not any(a in atoms for a in n.atoms()):
                continue
            if self.entails_plain(n) and self.entails_plain(-n):
                return False
        # prune disjunctions
        if self.disj:
            newd = []
            if hint_atoms is not None:
                # facts over the other atoms of a touched disjunction decide which of its disjuncts are alive
                ext = set()
                for d in self.disj:
                    if any(any(a in atoms for a in l.atoms()) for conj in d for l in conj):
                        for conj in d:
                            for l in conj:
                                ext.update(l.atoms())
                if ext - set(atoms):
                    sel2, _ = select_with_defs(cons, set(hint_atoms) | ext)
                    if not fm_unsat(sel2):
                        sel = sel2
                    else:
                        return False
            for d in self.disj:
                touched = hint_atoms is None or any(any(a in atoms for a in l.atoms()) for conj in d for l in conj)
                if not touched:
                    newd.append(d)
                    continue
                alive = []
                for conj in d:
                    cc = sel + [(l.t, l.c) for l in conj]
                    if fm_unsat(cc):
                        continue
                    # a disequality of the state that this disjunct forces to be an equality kills the disjunct
                    dead = False
                    if self.neqs:
                        cats = set()
                        for l in conj:
                            cats.update(l.atoms())
                        for n in self.neqs:
                            if not any(a in cats for a in n.atoms()):
                                continue
                            if fm_unsat(cc + [((n - 1).t, (n - 1).c)]) and fm_unsat(cc + [((-n - 1).t, (-n - 1).c)]):
                                dead = True
                                break
                    if not dead:
                        alive.append(conj)
                if not alive:
                    return False
                if len(alive) == 1:
                    for l in alive[0]:
                        self.facts.append(l)
                else:
                    newd.append(alive)
            self.disj = newd
        return True

    def entails_plain(self, goal, extra=()):
        return entails_ge0(list(self.facts) + list(extra), goal)

    def entails(self, goal, depth=0, extra=()):
        """facts (with disjunction case splits) |= goal >= 0"""
        if self.entails_plain(goal, extra):
            return True
        if depth == 0:
            # case split on 0/1 valued atoms (booleans cast to integers) connected to the goal
            cons0 = [(f.t, f.c) for f in list(self.facts) + list(extra)]
            _, ats = relevant(cons0, set(goal.atoms()), extra_rounds=2)
            bits = [a for a in (set(ats) | set(goal.atoms())) if ATOM_LO.get(a) == 0 and ATOM_HI.get(a) == 1]
            bits.sort(key=repr)
            if bits and len(bits) <= 3:
                import itertools
                ok = True
                for vals in itertools.product((0, 1), repeat=len(bits)):
                    ex = list(extra)
                    for a, v in zip(bits, vals):
                        ex.append(Lin.atom(a) - v)
                        ex.append(Lin.const(v) - Lin.atom(a))
                    if not self.entails(goal, 1, ex):
                        ok = False
                        break
                if ok:
                    return True
        if not self.disj or depth >= 4:
            return False
        # case split on the disjunctions that share atoms with the relevant set
        cons = [(f.t, f.c) for f in list(self.facts) + list(extra)]
        _, atoms = relevant(cons, set(goal.atoms()))
        atoms = set(atoms) | set(goal.atoms())
        for i, d in enumerate(self.disj):
            if any(any(a in atoms for a in l.atoms()) for conj in d for l in conj):
                rest = self.disj[:i] + self.disj[i + 1:]
                ok = True
                for conj in d:
                    sub = State()
                    sub.facts = list(self.facts) + list(extra) + list(conj)
                    sub.disj = rest
                    # infeasible branch counts as proved
                    cs = [(f.t, f.c) for f in sub.facts]
                    sel, ats = select_with_defs(cs, set(goal.atoms()) | set(a for l in conj for a in l.atoms()))
                    if fm_unsat(sel):
                        continue
                    if not sub.entails(goal, depth + 1):
                        ok = False
                        break
                if ok:
                    return True
                return False
        return False

    def holds(self, f):
        """is formula f entailed?"""
        k = f[0]
        if k == "c":
            return f[1]
        if k == "ge":
            return self.entails(f[1])
        if k == "eq":
            return self.entails(f[1]) and self.entails(-f[1])
        if k == "ne":
            l = f[1]
            for n in self.neqs:
                if n == l:
                    return True
            return self.entails(l - 1) or self.entails((-l) - 1)
        if k == "and":
            return self.holds(f[1]) and self.holds(f[2])
        if k == "or":
            if self.holds(f[1]) or self.holds(f[2]):
                return True
            # try: assume not f1, prove f2
            nf = f_not(f[1])
            c = conj_of(nf)
            if c is not None:
                sub = self.fork_facts()
                try:
                    for l in c:
                        sub.add_ge0(l)
                except Infeasible:
                    return True
                return sub.holds(f[2])
            return False
        return False

    def fork_facts(self):
        s = State()
        s.facts = list(self.facts)
        s.neqs = list(self.neqs)
        s.disj = list(self.disj)
        s.frames = self.frames  # shared, read-only use
        s.heap = self.heap
        return s

    def bounds(self, lin):
        from .lin import sup_of, inf_of
        return inf_of(self.facts, lin), sup_of(self.facts, lin)


def flatten_or(f):
    if f[0] == "or":
        return flatten_or(f[1]) + flatten_or(f[2])
    return [f]


def conj_of(f):
    """formula -> list of Lin>=0, or None if not representable as a conjunction of inequalities"""
    k = f[0]
    if k == "ge":
        return [f[1]]
    if k == "eq":
        return [f[1], -f[1]]
    if k == "and":
        a = conj_of(f[1])
        b = conj_of(f[2])
        if a is None or b is None:
            return None
        return a + b
    if k == "c" and f[1]:
        return []
    if k == "c" and not f[1]:
        return [Lin.const(-1)]
    if k == "ne":
        lo, hi = static_bounds(f[1])
        if lo is not None and lo >= 0:
            return [f[1] - 1]
        if hi is not None and hi <= 0:
            return [(-f[1]) - 1]
    return None
