"""Extension-header chain rules (C12).

 * walk:     `next_header(first)` and `write_internal(writer, first)` are the same state machine: the walker is
             interpreted with its loops unrolled (finite state: every iteration consumes a header flag or exits) on a
             fully symbolic extension set; the writer is then interpreted in *each* final state of the walker (which
             fixes the chain); the writer returns Ok exactly when the walker does and the same ExtsWalkError otherwise;
 * announce: on every Ok path the writer hands out exactly header_len() bytes;
 * link:     after `set_next_headers(n)` (n not an extension header number) the walker started at the returned number
             reaches Ok(n);
 * version:  a function that reports an EtherType for an IP header set reports the one of the IP version selected on
             the path.
"""
import os
import time
import multiprocessing as mp
from .lin import Lin, show_lin
from .values import *
from .sib import Sib, RESULT
from .rules_rt import describe_err

PAIRS = [
    ("net::ipv6_exts::Ipv6Extensions", 10),
    ("net::ipv4_exts::Ipv4Extensions", 4),
]
EXT_NUMBERS = (0, 43, 44, 51, 60)


def content_err(F, dv):
    """innermost ExtsWalkError value of an Err result (through WriteError::Content)"""
    e = dv.fields[0] if isinstance(dv, VAdt) and dv.fields else None
    for _ in range(3):
        if not isinstance(e, VAdt):
            return None
        if e.path.endswith("ExtsWalkError"):
            return e
        if e.fields and len(e.fields) >= 1 and isinstance(e.fields[0], VAdt):
            e = e.fields[0]
        else:
            return None
    return None


def walker_finals(S, F, T, unroll):
    nh = F.bodies[T + "::next_header"]
    I = S.interp()
    I.opts["unroll"] = unroll
    st = State()
    args = [I.materialize(st, nh["locals"][i + 1][0], ("ch", i)) for i in range(nh["arg_count"])]
    fin, probs, I = S.run(nh, st, args, I)
    bound = [e for e in I.sink.events if e[0] == "unroll_bound"]
    return nh, args, fin, probs + (["walker loop not exhausted within %d iterations" % unroll] if bound else []), I


def check_walk_chunk(a):
    T, unroll, idx, nchunks = a
    S = Sib(_F, _INV, _SUMM, depth=3, budget=600000)
    F = _F
    t0 = time.time()
    out = {"T": T, "problems": [], "pairs": 0, "ok": 0, "err": 0, "announce": 0}
    try:
        nh, args, fin, probs, I = walker_finals(S, F, T, unroll)
        out["problems"] += probs
        wi = F.bodies[T + "::write_internal"]
        hl = F.bodies[T + "::header_len"]
        for j, (s1, rv) in enumerate(fin):
            if j % nchunks != idx:
                continue
            if not s1.feasible():
                continue
            cw = S.result_variant(I, s1, rv)
            I2 = S.interp()
            I2.opts.update({"unroll": unroll, "io_sim": True, "io_ok_only": True})
            s2 = s1.fork()
            s2.notes["wlog"] = ()
            try:
                warg = I2.materialize(s2, wi["locals"][2][0], ("ch", "w"))
            except Infeasible:
                continue
            fin2, probs2, I2 = S.run(wi, s2, [args[0], warg, args[1]], I2)
            if any(e[0] == "unroll_bound" for e in I2.sink.events):
                out["problems"].append("writer loop not exhausted within %d iterations" % unroll)
            for (s3, wv) in fin2:
                if not s3.feasible():
                    continue
                out["pairs"] += 1
                cv = S.result_variant(I2, s3, wv)
                if cw is None or cv is None:
                    out["problems"].append("result class undecided on a joint path")
                    continue
                if cw != cv:
                    out["problems"].append("walking the chain gives %s (%s) where writing it gives %s (%s)" % (
                        cw, describe_err(F, rv) if cw == "Err" else "next header", cv,
                        describe_err(F, wv) if cv == "Err" else "written"))
                    continue
                if cw == "Err":
                    out["err"] += 1
                    ea, eb = content_err(F, rv), content_err(F, wv)
                    if ea is None or eb is None:
                        out["problems"].append("walk error value not tracked")
                    else:
                        for d in S.eq(I2, s3, ea, eb, "ExtsWalkError"):
                            out["problems"].append("walker and writer report different errors: " + d)
                    continue
                out["ok"] += 1
                # announce: bytes handed to the writer == header_len()
                log = s3.notes.get("wlog", ())
                n = Lin.const(0)
                for x in log:
                    if isinstance(x, tuple) and x and x[0] == "dyn":
                        if x[1] is None:
                            n = None
                            break
                        n = n + x[1].len
                    else:
                        n = n + 1
                s4 = s3.fork()
                fin3, _, I3 = S.run(hl, s4, [args[0]])
                for (s5, hv) in fin3:
                    if not s5.feasible():
                        continue
                    out["announce"] += 1
                    if n is None or not isinstance(hv, VInt) or not S.int_eq(s5, hv.lin, n):
                        out["problems"].append("header_len() = %s but the writer emits %s bytes" % (
                            show_lin(hv.lin) if isinstance(hv, VInt) else "?", show_lin(n) if n is not None else "?"))
            if len(out["problems"]) > 6:
                break
    except Exception:
        import traceback
        out["problems"].append("crash: " + traceback.format_exc().strip().splitlines()[-1])
    out["problems"] = list(dict.fromkeys(out["problems"]))[:6]
    out["time"] = time.time() - t0
    return out


def check_link(T, unroll):
    S = Sib(_F, _INV, _SUMM, depth=3, budget=400000)
    F = _F
    r = {"rule": "link", "what": T, "problems": [], "paths": 0}
    sn = F.bodies.get(T + "::set_next_headers")
    nh = F.bodies.get(T + "::next_header")
    if sn is None or nh is None:
        r["problems"].append("functions not found")
        return r
    r["sp"] = sn["span"]
    I = S.interp()
    st = State()
    a0 = I.materialize(st, sn["locals"][1][0], ("lk", 0))
    n = I.materialize(st, sn["locals"][2][0], ("lk", 1))
    nv = n.fields[0] if isinstance(n, VAdt) and n.fields else n
    try:
        for x in EXT_NUMBERS:
            st.add_ne0(nv.lin - x)
    except Infeasible:
        return r
    fin, probs, I = S.run(sn, st, [a0, n], I)
    r["problems"] += probs
    for (s1, first) in fin:
        if not s1.feasible():
            continue
        I2 = S.interp()
        I2.opts["unroll"] = unroll
        ref = VRef(a0.fid, a0.local, a0.projs, False)
        fin2, probs2, I2 = S.run(nh, s1, [ref, first], I2)
        if any(e[0] == "unroll_bound" for e in I2.sink.events):
            r["problems"].append("walker loop not exhausted")
        for (s2, rv) in fin2:
            if not s2.feasible():
                continue
            r["paths"] += 1
            if S.result_variant(I2, s2, rv) != "Ok":
                r["problems"].append("after set_next_headers(n) the walk fails: %s" % describe_err(F, rv))
                continue
            got = rv.fields[0]
            for d in S.eq(I2, s2, n, got, "IpNumber"):
                r["problems"].append("after set_next_headers(n) the walk ends at a different number: " + d)
        if len(r["problems"]) > 4:
            break
    r["problems"] = list(dict.fromkeys(r["problems"]))[:5]
    return r


ETHER = {0x0800: "Ipv4", 0x86dd: "Ipv6"}


def check_version():
    """functions returning an EtherType: the constant agrees with the IP version variant selected on the path"""
    from .rules_val import ValInterp, mentions
    F = _F
    recs = []
    names = {"net::ether_type_impl::EtherType", "link::ether_type_impl::EtherType"}
    et = [p for p in F.adts if p.endswith("::EtherType")]
    for b in F.body_list:
        if b["kind"] == "Closure" or b.get("derived") or b.get("unsafe"):
            continue
        rt = F.types[b["locals"][0][0]] if isinstance(b["locals"][0][0], int) else b["locals"][0][0]
        if not (isinstance(rt, dict) and rt.get("k") == "adt" and rt["path"] in et):
            continue
        I = ValInterp(F, _INV)
        I.max_depth = 1
        I.keep_finals = True
        try:
            I.analyze_root(b)
        except Exception:
            continue
        r = {"rule": "version", "what": b["path"], "sp": b["span"], "problems": [], "paths": 0}
        for (st, rv) in I.finals:
            if not (isinstance(rv, VAdt) and rv.fields and isinstance(rv.fields[0], VInt) and rv.fields[0].lin.is_const()):
                continue
            c = rv.fields[0].lin.c
            if c not in ETHER:
                continue
            vs = I.known_ip_variants(st)
            if not vs:
                continue
            r["paths"] += 1
            want = ETHER[c]
            other = "Ipv6" if want == "Ipv4" else "Ipv4"
            if any(other in v and want not in v for v in vs) and not any(want in v for v in vs):
                r["problems"].append("returns EtherType::%s on a path where the header set is %s" % (
                    want.upper(), ", ".join(sorted(set(vs)))))
        if r["paths"]:
            r["problems"] = list(dict.fromkeys(r["problems"]))[:3]
            recs.append(r)
    return recs


_F = None
_INV = None
_SUMM = None


def _link(a):
    return check_link(*a)


def run(F, inv, summaries, jobs=None):
    global _F, _INV, _SUMM
    _F, _INV, _SUMM = F, inv, summaries
    jobs = jobs or min(16, os.cpu_count() or 4)
    ctx = mp.get_context("fork")
    recs = []
    with ctx.Pool(jobs) as pool:
        tasks = []
        for (T, un) in PAIRS:
            nch = 14 if un > 4 else 1
            tasks += [(T, un, i, nch) for i in range(nch)]
        outs = pool.map(check_walk_chunk, tasks, chunksize=1)
        links = pool.map(_link, PAIRS, chunksize=1)
    for (T, un) in PAIRS:
        os_ = [o for o in outs if o["T"] == T]
        probs = []
        for o in os_:
            probs += o["problems"]
        b = F.bodies.get(T + "::write_internal")
        recs.append({"rule": "walk", "what": T, "sp": b["span"] if b else "", "problems": list(dict.fromkeys(probs))[:5],
                     "paths": sum(o["pairs"] for o in os_), "ok": sum(o["ok"] for o in os_),
                     "err": sum(o["err"] for o in os_), "announce": sum(o["announce"] for o in os_),
                     "time": max(o.get("time", 0) for o in os_)})
    recs += links
    recs += check_version()
    return recs
