"""Whole-crate driver for E1: root selection, invariant rounds, obligation aggregation (multiprocess)."""
import os
import sys
import time
import pickle
import traceback
import collections
import multiprocessing as mp
from .facts import Facts
from .absint import Interp, Sink
from .models import M
from .inv import merge_disjuncts
from .lin import Lin, lin_from_key, ATOM_LO, ATOM_HI, ATOM_MASK

_F = None
_CFG = None
_TRUSTED = frozenset()
_ROOTSET = frozenset()
_SUMM = {}
_COLLECT_PROV = False


def inv_targets(F):
    """struct path -> set of field indices that must not appear in invariants (public fields)"""
    out = {}
    for p, a in F.adts.items():
        if a["local"] and a["kind"] == "struct":
            fs = a["variants"][0]["fields"]
            if any(f["vis"] != "pub" for f in fs):
                out[p] = frozenset(i for i, f in enumerate(fs) if f["vis"] == "pub" and a.get("reachable", True))
    return out


def inv_names(F, targets):
    """invariant name -> struct path.  Typestate structs (PhantomData<Param> marker) get one invariant per concrete
    instantiation found in the type table, none for the generic form."""
    from .absint import typestate_structs, Interp
    ts = typestate_structs(F)
    out = {}
    for p in targets:
        if p not in ts:
            out[p] = p
    if ts:
        from .models import M
        I = Interp(F, M, {})
        for t in F.types:
            if isinstance(t, dict) and t["k"] == "adt" and t["path"] in ts and t["path"] in targets:
                nm = I.inv_name(t["path"], t)
                if nm is not None:
                    out[nm] = t["path"]
    return out


def is_external_root(b):
    if b["kind"] == "Closure":
        return False
    if b.get("unsafe"):
        return False
    if b.get("trait"):
        return True
    return bool(b.get("reachable"))


def _work(args):
    paths, inv, record_inv, depth, budget = args
    F = _F
    out = []
    targets = inv_targets(F) if record_inv else None
    for p in paths:
        b = F.bodies[p]
        err = None
        t0 = time.time()
        I = None
        used_depth = depth
        for d_try in range(depth, -1, -1):
            I = Interp(F, M, inv, max_depth=d_try, budget=budget * (1 if d_try == depth else 4 if d_try > 0 else 8))
            I.inv_targets = targets
            I.trusted_ctx = _TRUSTED
            I.rootset = _ROOTSET
            I.summaries = _SUMM
            I.collect_prov = _COLLECT_PROV
            try:
                I.analyze_root(b)
            except Exception as e:
                err = traceback.format_exc()
                break
            used_depth = d_try
            if not any(e[0] == "abort" for e in I.sink.events):
                break
        try:
            if used_depth != depth:
                I.sink.events.append(("reduced_depth", p, used_depth))
            # closures handed to unmodelled adapters: analyse with unconstrained arguments
            done = 0
            while I.pending_closures and done < 50:
                clo, body, st = I.pending_closures.pop()
                done += 1
                I2 = I
                try:
                    args = []
                    envty = I.rt(body["locals"][1][0])
                    if isinstance(envty, dict) and envty["k"] == "ref":
                        oid = ("clo", id(clo), done)
                        st.heap[oid] = clo
                        from .values import VRef
                        args.append(VRef(0, oid, (), envty["mut"]))
                    else:
                        args.append(clo)
                    for i in range(1, body["arg_count"]):
                        args.append(I.materialize(st, body["locals"][i + 1][0], ("cloarg", p, done, i)))
                    st.frames = st.frames[:1]
                    I.new_frame(st, body, args, lambda s, v: [], ("closure", done))
                    I.explore([st], None)
                except Exception as e:
                    err = traceback.format_exc()
        except Exception as e:
            err = traceback.format_exc()
        obl = [(o.kind, o.fn, o.site, o.desc, o.proved, o.ctx, o.sp, o.detail[:600], o.trivial, o.expn) for o in I.sink.obligs]
        recs = {}
        if record_inv:
            for sp, ds in I.inv_records.items():
                recs[sp] = [[l.key() for l in d] for d in ds]
        out.append({"root": p, "obligs": obl, "events": I.sink.events, "inv": recs, "entered": I.entered,
                    "inv_used": sorted(I.inv_used),
                    "prov": I.prov if used_depth == depth and err is None else None,
                    "opaque": [(x[0], x[2], x[3]) for x in I.opaque_calls], "err": err, "steps": I.steps,
                    "time": time.time() - t0, "atoms": None})
    # ship static info of atoms used by invariants
    if record_inv:
        atoms = {}
        for r in out:
            for sp, ds in r["inv"].items():
                for d in ds:
                    for k in d:
                        if not isinstance(k, int):
                            for a, c in k[0]:
                                atoms[a] = (ATOM_LO.get(a), ATOM_HI.get(a), ATOM_MASK.get(a))
        out.append({"atoms": atoms})
    return out


def run_pass(F, roots, inv, record_inv, depth=2, budget=20000, jobs=None, rootset=None, summaries=None,
             collect_prov=False):
    global _F, _ROOTSET, _SUMM, _COLLECT_PROV
    _F = F
    _ROOTSET = frozenset(rootset if rootset is not None else roots)
    _SUMM = summaries or {}
    _COLLECT_PROV = collect_prov
    jobs = jobs or min(16, os.cpu_count() or 4)
    roots = list(roots)
    # chunk: interleave to balance
    nchunks = max(jobs * 6, 1)
    chunks = [roots[i::nchunks] for i in range(nchunks)]
    chunks = [c for c in chunks if c]
    tasks = [(c, inv, record_inv, depth, budget) for c in chunks]
    results = []
    if jobs == 1:
        for t in tasks:
            results.extend(_work(t))
    else:
        ctx = mp.get_context("fork")
        with ctx.Pool(jobs) as pool:
            for r in pool.imap_unordered(_work, tasks):
                results.extend(r)
    atoms = {}
    res = []
    for r in results:
        if "root" not in r:
            atoms.update(r["atoms"])
        else:
            res.append(r)
    for a, (lo, hi, m) in atoms.items():
        if a not in ATOM_LO:
            ATOM_LO[a] = lo
            ATOM_HI[a] = hi
            ATOM_MASK[a] = m
    res.sort(key=lambda r: r["root"])
    return res


def build_invariants(results, old, targets):
    """Kleene step: new invariant = merge(old disjuncts + records of this round)"""
    per = {}
    for r in results:
        for sp, ds in r["inv"].items():
            for d in ds:
                per.setdefault(sp, []).append([lin_from_key(k) for k in d])
    inv = {}
    for sp in targets:
        o = old.get(sp)
        if o is not None and o.get("top"):
            inv[sp] = o
            continue
        if "<" in sp and per.get(sp.split("<", 1)[0] + "<*>"):
            inv[sp] = {"disjuncts": [], "top": True}
            continue
        ds = list(o["disjuncts"]) if o else []
        ds = ds + per.get(sp, [])
        if not ds:
            inv[sp] = {"disjuncts": [], "bottom": True}
            continue
        if any(len(d) == 0 for d in ds):
            inv[sp] = {"disjuncts": [], "top": True}
            continue
        uniq = []
        seen = set()
        for d in ds:
            k = frozenset(l.key() for l in d)
            if k not in seen:
                seen.add(k)
                uniq.append(d)
        m = merge_disjuncts(uniq)
        if any(len(d) == 0 for d in m):
            inv[sp] = {"disjuncts": [], "top": True}
        else:
            info = {}
            for d in m:
                for l in d:
                    for a in l.atoms():
                        info[a] = (ATOM_LO.get(a), ATOM_HI.get(a), ATOM_MASK.get(a))
            inv[sp] = {"disjuncts": m, "atoms": info}
    return inv


def int_returning(F, path):
    b = F.bodies.get(path)
    if b is None or b["kind"] == "Closure":
        return False
    t = b["locals"][0][0]
    t = F.types[t] if isinstance(t, int) else t
    # (u8 / u16 results are bounded well enough by their type)
    return isinstance(t, str) and t in ("usize", "u32", "u64")


def build_summaries(results):
    out = {}
    for r in results:
        pv = r.get("prov")
        if pv:
            sm = {path: (fl if fl == "foreign" else (bool(fl[0]), bool(fl[1]), fl[2] if len(fl) > 2 else None))
                  for path, fl in pv.items() if path not in ("__lensrc__", "__range__")}
            ls = pv.get("__lensrc__")
            rg = pv.get("__range__")
            if rg == "unbounded":
                rg = None
            if any(fl != "foreign" for fl in sm.values()) or ls or rg:
                if ls:
                    sm["__lensrc__"] = tuple(sorted(ls, key=str))
                if rg:
                    sm["__range__"] = tuple(rg)
                out[r["root"]] = sm
    return out


def inv_signature(inv):
    return {sp: (bool(v.get("top")), bool(v.get("bottom")), frozenset(frozenset(l.key() for l in d) for d in v["disjuncts"]))
            for sp, v in inv.items()}


def interesting_roots(F, roots, targets, reach_depth=5):
    """roots from which a construction / field-write site of a target struct is reachable"""
    hot = set()
    calls = {}
    for b in F.body_list:
        cs = set()
        isint = False
        for blk in b["blocks"]:
            for st in blk["stmts"]:
                if st["s"] == "assign":
                    rv = st["rvalue"]
                    if rv["rv"] == "agg" and rv["kind"].get("agg") == "adt" and rv["kind"]["path"] in targets:
                        isint = True
                    if st["place"].get("p"):
                        isint = True
                    if rv["rv"] in ("ref", "rawptr") and rv.get("mut") and rv["place"].get("p"):
                        isint = True
            t = blk["term"]
            if t["t"] == "call":
                c = t["callee"]
                p = c.get("res") or c.get("decl")
                if p:
                    cs.add(p)
                for a in t["args"]:
                    k = a.get("k")
                    if k and "fn" in k:
                        cs.add(k["fn"])
        for blk in b["blocks"]:
            for st in blk["stmts"]:
                if st["s"] == "assign" and st["rvalue"]["rv"] == "agg" and st["rvalue"]["kind"].get("agg") == "closure":
                    cs.add(st["rvalue"]["kind"]["path"])
        calls[b["path"]] = cs
        if isint:
            hot.add(b["path"])
    out = []
    for r in roots:
        seen = {r}
        frontier = [r]
        found = r in hot
        d = 0
        while frontier and not found and d < reach_depth:
            nf = []
            for x in frontier:
                for y in calls.get(x, ()):
                    if y in seen or y not in calls:
                        continue
                    seen.add(y)
                    if y in hot:
                        found = True
                    nf.append(y)
            frontier = nf
            d += 1
        if found:
            out.append(r)
    return out


def select_roots(F):
    return [b["path"] for b in F.body_list if is_external_root(b)]


def analyze_crate(F, depth=2, budget=20000, jobs=None, max_rounds=16, log=None, axioms=None):
    """full E1 run: returns dict(inv=..., results=[...], roots=[...])"""
    global _TRUSTED
    if axioms is not None:
        from .axioms import trusted_ctx_set
        _TRUSTED = frozenset(trusted_ctx_set(axioms))
    def say(*a):
        if log:
            log(" ".join(str(x) for x in a))
    roots = select_roots(F)
    targets = inv_targets(F)
    names = inv_names(F, targets)
    inv = {sp: {"disjuncts": [], "bottom": True} for sp in names}
    t0 = time.time()
    # fallback roots are discovered with a cheap first pass (bodies never entered / not inlined)
    iroots = None
    stable = False
    last = {}
    changed_prev = None
    for rnd in range(max_rounds):
        use = roots if iroots is None else iroots
        if rnd >= 2 and changed_prev is not None:
            # only roots that assumed an invariant which changed in the previous round can behave differently
            use = [r for r in iroots if r not in last or set(last[r].get("inv_used") or ()) & changed_prev]
        results = run_pass(F, use, inv, True, depth, budget, jobs, rootset=roots)
        if iroots is None:
            iroots = interesting_roots(F, roots, targets)
        if rnd >= 1:
            for r in results:
                last[r["root"]] = r
            results = [last[r] for r in iroots if r in last]
        newinv = build_invariants(results, inv, names)
        dbg = os.environ.get("VERIF_INVDBG")
        if dbg and log:
            from .lin import show_lin
            for r in results:
                for sp, ds in r["inv"].items():
                    if dbg in sp:
                        for d in ds:
                            say("   REC round %d root %s -> %s: %s" % (rnd, r["root"], sp, " ; ".join(
                                show_lin(lin_from_key(k)) + ">=0" for k in d)))
        if log:
            seen_e = set()
            for r in results:
                for e in r["events"]:
                    if e[0] == "inv_empty" and not inv.get(e[1], {}).get("top") and (e[1], e[2]) not in seen_e:
                        seen_e.add((e[1], e[2]))
                        say("   empty disjunct:", e[1], "in", e[2], "root", r["root"], e[3], "|", e[4], "|", e[5])
        say("inv round", rnd, "roots", len(use), "of", len(results), "top", sum(1 for v in newinv.values() if v.get("top")),
            "bottom", sum(1 for v in newinv.values() if v.get("bottom")), "t=%.1f" % (time.time() - t0))
        sa, sb = inv_signature(inv), inv_signature(newinv)
        if sa == sb:
            stable = True
            break
        changed_prev = {sp for sp in names if sa[sp] != sb[sp]}
        if rnd >= 12:
            # invariants that still change after three rounds are given up (TOP) so that the rest settles
            for sp in names:
                if sa[sp] != sb[sp]:
                    newinv[sp] = {"disjuncts": [], "top": True}
        if log and rnd >= 1:
            from .lin import show_lin
            for sp in names:
                if sa[sp] != sb[sp]:
                    say("   changed:", sp, "top" if newinv[sp].get("top") else "")
                    if rnd >= 2:
                        for d in newinv[sp]["disjuncts"]:
                            say("       OR", " ; ".join(show_lin(l) + ">=0" for l in d)[:600])
        inv = newinv
    if not stable:
        say("invariants did not stabilise; dropping those that still change")
        for _ in range(3):
            results = run_pass(F, iroots, inv, True, depth, budget, jobs, rootset=roots)
            newinv = build_invariants(results, inv, names)
            sa, sb = inv_signature(inv), inv_signature(newinv)
            changed = [sp for sp in names if sa[sp] != sb[sp]]
            if not changed:
                stable = True
                break
            for sp in changed:
                inv[sp] = {"disjuncts": [], "top": True}
    never = [sp for sp, v in inv.items() if v.get("bottom")]
    for sp in never:
        inv[sp] = {"disjuncts": [], "top": True}
    # provenance summaries: which returned byte slices are sub-slices (prefix / suffix) of the slice argument
    # return-value ranges of integer functions (bottom-up, a few cheap rounds over the int-returning functions only)
    ranges = {}
    int_fns = [r for r in roots if int_returning(F, r)]
    for rnd in range(3):
        todo = [f for f in int_fns if f not in ranges]
        if not todo:
            break
        rp = run_pass(F, todo, inv, False, depth, budget, jobs, rootset=roots, summaries=ranges, collect_prov=True)
        new = {fn: {"__range__": sm["__range__"]} for fn, sm in build_summaries(rp).items() if "__range__" in sm}
        grown = [fn for fn in new if fn not in ranges]
        for fn in grown:
            ranges[fn] = new[fn]
        if not grown:
            break
    say("return ranges for %d of %d integer functions t=%.1f" % (len(ranges), len(int_fns), time.time() - t0))
    pre = run_pass(F, roots, inv, False, depth, budget, jobs, rootset=roots, summaries=ranges, collect_prov=True)
    summaries = build_summaries(pre)
    for fn, sm in ranges.items():
        summaries.setdefault(fn, {})["__range__"] = sm["__range__"]
    say("provenance summaries for %d functions t=%.1f" % (len(summaries), time.time() - t0))
    results = run_pass(F, roots, inv, False, depth, budget, jobs, rootset=roots, summaries=summaries,
                       collect_prov=True)
    confirm = build_summaries(results)
    dropped = 0
    for fn in list(summaries):
        if summaries[fn] != confirm.get(fn):
            # keep only entries confirmed (or strengthened) by the second pass
            a, b = summaries[fn], confirm.get(fn) or {}
            keep = {}
            for path, fl in a.items():
                if path == "__range__":
                    # computed without relying on itself (a range is only ever used for *other* functions' callers
                    # after it was derived): kept as derived in the range rounds
                    keep[path] = fl
                    continue
                if path == "__lensrc__":
                    if b.get(path) is not None and set(b[path]) <= set(fl):
                        keep[path] = fl
                    else:
                        dropped += 1
                    continue
                fb = b.get(path)
                if fl != "foreign" and fb not in (None, "foreign") and (not fl[0] or fb[0]) and (not fl[1] or fb[1]) \
                        and (fl[2] is None or fl[2] == fb[2]):
                    keep[path] = fl
                else:
                    dropped += 1
            summaries[fn] = keep
    if dropped:
        say("provenance: %d entries not confirmed by the second pass (dropped; results re-run)" % dropped)
        results = run_pass(F, roots, inv, False, depth, budget, jobs, rootset=roots, summaries=summaries)
    for _ in range(4):
        nr = extend_roots(F, roots, results)
        if len(nr) == len(roots):
            break
        extra = run_pass(F, [r for r in nr if r not in set(roots)], inv, False, depth, budget, jobs, rootset=nr,
                         summaries=summaries)
        results.extend(extra)
        roots = nr
    say("final pass done t=%.1f" % (time.time() - t0))
    return {"inv": inv, "results": results, "roots": roots, "stable": stable, "never_constructed": never,
            "summaries": summaries}


def extend_roots(F, roots, results):
    """add fallback roots: callees that were not inlined somewhere, and bodies never entered"""
    rs = set(roots)
    entered = set()
    opaque = set()
    for r in results:
        entered |= r["entered"]
        for c in r["opaque"]:
            opaque.add(c[0])
    out = list(roots)
    for b in F.body_list:
        p = b["path"]
        if p in rs:
            continue
        if b.get("unsafe"):
            continue  # unsafe fns are only analysed in the context of their (crate) callers
        if p in opaque or p not in entered:
            out.append(p)
            rs.add(p)
    return out


def aggregate(F, results, roots=None):
    """site_key -> {'n': required instances, 'fail': [...], ...}.
    An inlined instance is required only when no function on its inline chain is itself analysed as a
    root (a root is analysed for all inputs admitted by the type invariants, which covers the chain)."""
    rootset = set(roots) if roots is not None else {r["root"] for r in results}
    sites = {}
    for r in results:
        for (kind, fn, site, desc, proved, ctx, sp, detail, trivial, expn) in r["obligs"]:
            if ctx and any(c[0] in rootset for c in ctx):
                continue
            k = (fn, site, kind, desc)
            s = sites.get(k)
            if s is None:
                s = sites[k] = {"n": 0, "fail": [], "sp": sp, "trivial": True, "expn": expn, "fail_chains": set()}
            s["n"] += 1
            if not trivial:
                s["trivial"] = False
            if not proved and len(s["fail_chains"]) < 40:
                s["fail_chains"].add((r["root"],) + tuple(c[0] for c in ctx))
            if not proved and len(s["fail"]) < 3:
                s["fail"].append((r["root"], ctx, detail))
            elif not proved:
                s["fail"].append(None)
    return sites


def stable_keys(sites):
    """assign line-free stable keys: (fn, kind, desc, ordinal among same (fn,kind,desc) by site order)"""
    groups = collections.defaultdict(list)
    for (fn, site, kind, desc) in sites:
        groups[(fn, kind, desc)].append(site)
    out = {}
    for (fn, kind, desc), ss in groups.items():
        ss.sort(key=lambda s: (s[0], -1 if s[1] == "t" else s[1]) if s[1] != "t" else (s[0], 1 << 30))
        for i, s in enumerate(ss):
            out[(fn, s, kind, desc)] = "%s|%s|%s|#%d" % (fn, kind, desc, i)
    return out


def main():
    path = sys.argv[1]
    F = Facts(path)
    t0 = time.time()
    from .axioms import load_axioms
    res = analyze_crate(F, log=print, axioms=load_axioms())
    sites = aggregate(F, res["results"], res["roots"])
    tot = collections.Counter()
    bad = collections.Counter()
    for k, s in sites.items():
        tot[k[2]] += 1
        if s["fail"]:
            bad[k[2]] += 1
    print("sites", dict(tot))
    print("failing sites", dict(bad))
    errs = [r for r in res["results"] if r["err"]]
    print("errors", len(errs))
    for r in errs[:5]:
        print(r["root"], r["err"][-800:])
    ab = [e for r in res["results"] for e in r["events"] if e[0] == "abort"]
    print("aborts", len(ab))
    for a in ab[:40]:
        print("  ", a)
    print("invariants:")
    from .lin import show_lin
    for sp, iv in sorted(res["inv"].items()):
        print(" ", sp, "TOP" if iv.get("top") else "")
        for d in iv["disjuncts"]:
            print("     OR", " ; ".join(show_lin(l) + ">=0" for l in d))
    with open("/tmp/e1_sites.pkl", "wb") as f:
        pickle.dump((sites, res["inv"]), f)
    if len(sys.argv) > 2:
        pat = sys.argv[2]
        for k, s in sorted(sites.items(), key=lambda x: (x[0][0], str(x[0][1]))):
            if s["fail"] and pat in k[0]:
                print("FAIL", k, s["sp"], [f for f in s["fail"] if f][:1])
    print("total %.1fs" % (time.time() - t0))


if __name__ == "__main__":
    main()
