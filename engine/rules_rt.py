"""Round-trip rules (C08): decode(encode(h)) == h, announced length == emitted length, writers agree with to_bytes.

For every header type with a `to_bytes` the encoder is interpreted on a fully symbolic value (one start state per
variant combination of its enum fields, type invariants assumed); every decoder of the type is then interpreted on the
symbolic bytes in the encoder's final state, and the decoded value is compared field by field with the original under
the joint path condition.  Bytes are bit-field-structured linear expressions over the field atoms, so the comparison
holds for all field values at once.
"""
import os
import json
import time
import multiprocessing as mp
from .lin import Lin, show_lin
from .values import *
from .sib import Sib, RESULT

VERIF = os.path.dirname(os.path.dirname(os.path.abspath(__file__)))
DECODERS = ("from_bytes", "from_slice")


def load_spec():
    with open(os.path.join(VERIF, "spec", "roundtrip.json")) as f:
        return json.load(f)


def header_types(F):
    out = []
    for b in F.body_list:
        p = b["path"]
        if b["kind"] != "Closure" and p.endswith("::to_bytes") and b["arg_count"] == 1 and not b.get("derived"):
            out.append(p.rsplit("::", 1)[0])
    return sorted(set(out))


def permitted(spec, diff):
    """a difference that the spec lists as a documented normalisation"""
    for e in spec.get("normalisations", []):
        if e["match"] in diff:
            return e
    return None


def check_type(S, F, T, spec):
    """-> list of instance records"""
    recs = []
    enc = F.bodies[T + "::to_bytes"]
    I = S.interp()
    st = State()
    try:
        a0 = I.materialize(st, enc["locals"][1][0], ("rt", "self"))
    except Infeasible:
        return [{"rule": "rt", "type": T, "what": "to_bytes", "problems": ["type invariant is bottom (never constructed)"]}]
    starts = S.split_enums(I, st, a0)
    enc_finals = []
    enc_problems = []
    for (s0, desc) in starts:
        orig = I.load(s0, ("place", a0.fid, a0.local, a0.projs)) if isinstance(a0, VRef) else a0
        fin, probs, I0 = S.run(enc, s0, [a0])
        enc_problems += probs
        for (s1, rv) in fin:
            enc_finals.append((s1, rv, orig, desc))
    name = T.rsplit("::", 1)[1]
    # --- rule len: header_len(self) == number of bytes emitted
    hl = F.bodies.get(T + "::header_len")
    if hl is not None and hl["arg_count"] == 1:
        r = {"rule": "len", "type": T, "what": "header_len", "sp": hl["span"], "problems": [], "paths": 0}
        for (s1, rv, orig, desc) in enc_finals:
            n = out_len(rv)
            if n is None:
                r["problems"].append("length of the to_bytes result is not tracked")
                break
            s2 = s1.fork()
            fin, probs, I2 = S.run(hl, s2, [a0])
            for (s3, hv) in fin:
                r["paths"] += 1
                if not (isinstance(hv, VInt) and S.int_eq(s3, hv.lin, n)):
                    r["problems"].append("%sheader_len() = %s but to_bytes() emits %s bytes" % (
                        (desc + ": ") if desc else "", show_lin(hv.lin) if isinstance(hv, VInt) else "?", show_lin(n)))
                    break
            if r["problems"]:
                break
        recs.append(r)
    # --- rule rt: decode(to_bytes(self)) == self
    for dn in DECODERS:
        dec = F.bodies.get(T + "::" + dn)
        if dec is None or dec["arg_count"] != 1:
            continue
        r = {"rule": "rt", "type": T, "what": dn, "sp": dec["span"], "problems": list(enc_problems[:2]), "paths": 0,
             "normalised": 0}
        for (s1, rv, orig, desc) in enc_finals:
            s2 = s1.fork()
            Itmp = S.interp()
            inp = S.as_input(Itmp, s2, rv, dec["locals"][1][0], "buf")
            if inp is None:
                r["problems"].append("contents of the to_bytes result are not tracked (%s)" % repr(rv)[:60])
                break
            arg, n = inp
            fin, probs, I2 = S.run(dec, s2, [arg], Itmp)
            for p in probs[:2]:
                r["problems"].append(p)
            for (s3, dv) in fin:
                if not s3.feasible():
                    continue
                r["paths"] += 1
                pre = (desc + ": ") if desc else ""
                cls = S.result_variant(I2, s3, dv)
                if cls != "Ok":
                    d = "%sdecoding the encoder's output can fail: %s" % (pre, describe_err(F, dv))
                    e = permitted(spec, name + "|" + d)
                    if e is None:
                        r["problems"].append(d)
                    else:
                        r["normalised"] += 1
                    continue
                hv = dv
                if isinstance(dv, VAdt) and dv.path == RESULT:
                    hv = dv.fields[0]
                rest = None
                if isinstance(hv, VTuple) and len(hv.fields) == 2:
                    rest = hv.fields[1]
                    hv = hv.fields[0]
                diffs = S.eq(I2, s3, orig, hv, name)
                if rest is not None and isinstance(rest, VRegion) and not s3.entails(-rest.len):
                    diffs.append("%s: remainder after decoding is not empty (%s)" % (name, show_lin(rest.len)))
                for d in diffs:
                    e = permitted(spec, pre + d)
                    if e is None:
                        r["problems"].append(pre + d)
                    else:
                        r["normalised"] += 1
            if len(r["problems"]) > 4:
                break
        r["problems"] = list(dict.fromkeys(r["problems"]))[:5]
        recs.append(r)
    # --- rule writers: write(self, w) hands exactly to_bytes(self) to the writer
    wr = F.bodies.get(T + "::write")
    if wr is not None and wr["arg_count"] == 2:
        r = {"rule": "writers", "type": T, "what": "write", "sp": wr["span"], "problems": [], "paths": 0}
        for (s1, rv, orig, desc) in enc_finals:
            s2 = s1.fork()
            Iw = S.interp()
            Iw.opts["io_sim"] = True
            try:
                warg = Iw.materialize(s2, wr["locals"][2][0], ("rt", "w"))
            except Infeasible:
                continue
            s2.notes["wlog"] = ()
            fin, probs, Iw = S.run(wr, s2, [a0, warg], Iw)
            for (s3, wv) in fin:
                if not s3.feasible() or S.result_variant(Iw, s3, wv) != "Ok":
                    continue
                r["paths"] += 1
                log = s3.notes.get("wlog", ())
                n = out_len(rv)
                data = rv.elems if isinstance(rv, VArray) else (rv.data if isinstance(rv, VVec) else None)
                pre = (desc + ": ") if desc else ""
                skip = set(spec.get("writers_skip", {}).get(name, {}).get("bytes", []))
                # flatten: constant-length writes, optionally one symbolic-length write at the end
                dyn = [x for x in log if isinstance(x, tuple) and x and x[0] == "dyn"]
                fixed = [x for x in log if not (isinstance(x, tuple) and x and x[0] == "dyn")]
                if len(dyn) > 1 or (dyn and log[-1] is not dyn[0]):
                    r["problems"].append("%swrite() emits several slices of symbolic length" % pre)
                    continue
                total_w = Lin.const(len(fixed)) + (dyn[0][1].len if dyn and dyn[0][1] is not None else Lin.const(0))
                if n is None or (dyn and dyn[0][1] is None) or not S.int_eq(s3, total_w, n):
                    r["problems"].append("%swrite() emits %s bytes, to_bytes() %s" % (pre, show_lin(total_w), show_lin(n) if n is not None else "?"))
                    continue
                if data is None:
                    r["problems"].append("%scontents of to_bytes() are not tracked" % pre)
                    continue
                seq = [(i, x, None) for i, x in enumerate(fixed)]
                if dyn:
                    bs = dyn[0][2]
                    if bs is None:
                        r["problems"].append("%scontents of the symbolic-length write are not tracked" % pre)
                        continue
                    seq += [(len(fixed) + j, x, j) for j, x in enumerate(bs)]
                for (i, x, j) in seq:
                    if i >= len(data) or s3.entails(Lin.const(i) - n):
                        break
                    if i in skip:
                        continue
                    s4 = s3
                    if not s3.entails(n - i - 1):
                        s4 = s3.fork_facts()
                        try:
                            s4.add_ge0(n - i - 1)
                            if not s4.feasible():
                                continue
                        except Infeasible:
                            continue
                    y = data[i]
                    if y is None or not (isinstance(x, VInt) and isinstance(y, VInt) and S.int_eq(s4, x.lin, y.lin)):
                        r["problems"].append("%sbyte %d written by write() differs from to_bytes(): %s vs %s" % (
                            pre, i, show_lin(x.lin)[:80] if isinstance(x, VInt) else "?",
                            show_lin(y.lin)[:80] if isinstance(y, VInt) else "?"))
                        break
            if len(r["problems"]) > 3:
                break
        r["problems"] = list(dict.fromkeys(r["problems"]))[:4]
        recs.append(r)
    # --- rule rt2: for every accepted byte string S:  to_bytes(decode(S)) == S[..n] (modulo reserved bits),
    #     n bytes consumed, and decoding the re-encoded bytes gives the same value again
    for dn in DECODERS:
        dec = F.bodies.get(T + "::" + dn)
        if dec is None or dec["arg_count"] != 1:
            continue
        recs.append(check_rt2(S, F, T, name, enc, dec, dn, spec))
    return recs


def symbolic_input(I, st, ty, tag):
    """symbolic argument of type &[u8] / [u8; N] / &[u8; N]: (arg, origin, length Lin)"""
    from .lin import reg_atom, I64MAX
    t = I.rt(ty)
    origin = ("s", ("rt", tag))
    if isinstance(t, dict) and t["k"] == "array" and t["len"] is not None:
        n = t["len"]
        elems = tuple(VInt(Lin.atom(reg_atom(("byte", origin, Lin.const(i).key()), 0, 255))) for i in range(n))
        return VArray(elems, n, None, "u8"), origin, Lin.const(n)
    if isinstance(t, dict) and t["k"] == "ref":
        to = I.rt(t["to"])
        if isinstance(to, dict) and to["k"] == "slice":
            ln = Lin.atom(reg_atom(("len", origin), 0, I64MAX))
            return VRegion(origin, Lin.const(0), ln, False), origin, ln
        if isinstance(to, dict) and to["k"] == "array" and to["len"] is not None:
            return VRegion(origin, Lin.const(0), Lin.const(to["len"]), False), origin, Lin.const(to["len"])
    return None, None, None


def reserved_mask(spec, name, i):
    m = 0
    for e in spec.get("reserved_bits", []):
        if e["type"] == name and e["byte"] == i:
            m |= e["mask"]
    return m


class NotEvaluable(Exception):
    pass


def eval_atom(a, env):
    """value of an interpreter atom under a concrete assignment of input bytes (static evaluation of the symbolic
    expression, no program is run)"""
    from .lin import lin_from_key
    if a in env:
        return env[a]
    if not isinstance(a, tuple) or not a:
        raise NotEvaluable()
    k = a[0]
    if k == "and" and len(a) == 3 and isinstance(a[2], int):
        return eval_lin(lin_from_key(a[1]), env) & a[2]
    if k == "shr" and len(a) == 3 and isinstance(a[2], int):
        return eval_lin(lin_from_key(a[1]), env) >> a[2]
    if k == "shl" and len(a) == 4:
        return (eval_lin(lin_from_key(a[1]), env) << a[2]) & ((1 << a[3]) - 1)
    if k == "or" and len(a) == 3:
        return eval_lin(lin_from_key(a[1]), env) | eval_lin(lin_from_key(a[2]), env)
    if k == "b2if" and len(a) == 3:
        v = eval_lin(lin_from_key(a[2]), env)
        return int({"ge": v >= 0, "eq": v == 0, "ne": v != 0}[a[1]])
    raise NotEvaluable()


def eval_lin(l, env):
    r = l.c
    for a, c in l.t.items():
        r += c * eval_atom(a, env)
    return r


def invented_bits(st, x, y_atom):
    """re-encoded byte x (a Lin) against the input byte atom: a value of the input byte, admitted by every fact of the
    path that can be evaluated, for which x has a bit set that the input byte has clear (None: no such value / not
    decidable).  Normalising may clear reserved bits; it must not turn them into set flags."""
    rel = []
    for f in st.facts:
        if y_atom in _atoms_deep(f):
            rel.append(("ge", f))
    for n in st.neqs:
        if y_atom in _atoms_deep(n):
            rel.append(("ne", n))
    if st.disj:
        for d in st.disj:
            # (the disjunction that links a 0/1 atom b2if(cond) to its condition is definitional: b2if is evaluated
            #  directly, so it carries no extra knowledge)
            if all(any(isinstance(a, tuple) and a and a[0] in ("b2if", "b2i") for l in conj for a in l.t) for conj in d):
                continue
            for conj in d:
                for l in conj:
                    if y_atom in _atoms_deep(l):
                        return None  # disjunctive knowledge about this byte: not evaluated
    for v in range(256):
        env = {y_atom: v}
        try:
            ok = True
            for kind, l in rel:
                val = eval_lin(l, env)
                if (kind == "ge" and val < 0) or (kind == "ne" and val == 0):
                    ok = False
                    break
            if not ok:
                continue
            b = eval_lin(x, env)
        except NotEvaluable:
            return None
        if b & ~v & 0xff:
            return v, b
    return None


def _atoms_deep(l):
    out = set()

    def walk(t):
        if isinstance(t, tuple):
            if t and t[0] == "byte":
                out.add(t)
                return
            for z in t:
                walk(z)
    for a in l.t:
        walk(a)
    return out


def check_rt2(S, F, T, name, enc, dec, dn, spec):
    r = {"rule": "rt2", "type": T, "what": dn, "sp": dec["span"], "problems": [], "paths": 0, "normalised": 0}
    I = S.interp()
    st = State()
    arg, origin, total = symbolic_input(I, st, dec["locals"][1][0], "in")
    if arg is None:
        r["problems"].append("decoder argument type not supported")
        return r
    fin, probs, I = S.run(dec, st, [arg], I)
    r["problems"] += probs[:2]
    for (s1, dv) in fin:
        if not s1.feasible():
            continue
        if S.result_variant(I, s1, dv) != "Ok":
            continue  # rejected inputs are not part of this rule
        hv = dv.fields[0] if isinstance(dv, VAdt) and dv.path == RESULT else dv
        rest = None
        if isinstance(hv, VTuple) and len(hv.fields) == 2:
            rest, hv = hv.fields[1], hv.fields[0]
        if not isinstance(hv, VAdt):
            r["problems"].append("decoded value is not tracked")
            break
        r["paths"] += 1
        oid = ("h", ("rt", "hdr"))
        s1.heap[oid] = hv
        ref = VRef(0, oid, (), False)
        fin2, probs2, I2 = S.run(enc, s1, [ref])
        r["problems"] += probs2[:2]
        for (s2, bv) in fin2:
            if not s2.feasible():
                continue
            n = out_len(bv)
            if n is None:
                r["problems"].append("length of the re-encoded bytes is not tracked")
                continue
            if rest is not None and isinstance(rest, VRegion):
                consumed = total - rest.len
                if not S.int_eq(s2, consumed, n):
                    r["problems"].append("decoding consumed %s bytes but re-encoding emits %s" % (show_lin(consumed), show_lin(n)))
            elif not S.int_eq(s2, total, n) and dn == "from_bytes":
                r["problems"].append("from_bytes takes %s bytes but to_bytes emits %s" % (show_lin(total), show_lin(n)))
            # bytes
            data = bv.elems if isinstance(bv, VArray) else (bv.data if isinstance(bv, VVec) else None)
            if data is None:
                r["problems"].append("contents of the re-encoded bytes are not tracked")
                continue
            for i, x in enumerate(data):
                if s2.entails(Lin.const(i) - n):
                    break
                s3 = s2
                if not s2.entails(n - i - 1):
                    s3 = s2.fork_facts()
                    try:
                        s3.add_ge0(n - i - 1)
                        if not s3.feasible():
                            continue
                    except Infeasible:
                        continue
                if x is None:
                    r["problems"].append("re-encoded byte %d is not tracked" % i)
                    break
                y = I2.read_byte(s3, origin, Lin.const(i))
                rm = reserved_mask(spec, name, i)
                a, b = x, y
                if rm:
                    keep = 255 & ~rm
                    a = VInt(I2.bitand(x.lin, Lin.const(keep), "u8", s3))
                    b = VInt(I2.bitand(y.lin, Lin.const(keep), "u8", s3))
                    r["normalised"] += 1
                if isinstance(a, VInt) and S.int_eq(s3, a.lin, b.lin):
                    r["bytes_equal"] = r.get("bytes_equal", 0) + 1
                else:
                    # not a failure by itself: bits the decoder does not read are reserved / normalised; what must
                    # hold is that decoding the re-encoded bytes gives the same value (checked below) ...
                    r["bytes_normalised"] = r.get("bytes_normalised", 0) + 1
                    # ... and that the normalisation only *clears* bits: a re-encoded byte with a bit set that the
                    # input byte did not have means a field is read from the wrong / too many bits
                    ya = b.lin.single_atom() if isinstance(b, VInt) else None
                    if isinstance(a, VInt) and ya is not None and isinstance(ya, tuple) and ya[0] == "byte" and not rm:
                        w = invented_bits(s3, a.lin, ya)
                        if w is not None:
                            r["problems"].append("re-encoding byte %d sets a bit the input did not have (input 0x%02x -> 0x%02x): "
                                                 "a field is decoded from bits that are not its own" % (i, w[0], w[1] & 0xff))
            # decode again
            s4 = s2.fork()
            Itmp = S.interp()
            inp = S.as_input(Itmp, s4, bv, dec["locals"][1][0], "buf2")
            if inp is None:
                continue
            fin3, probs3, I3 = S.run(dec, s4, [inp[0]], Itmp)
            for (s5, dv2) in fin3:
                if not s5.feasible():
                    continue
                if S.result_variant(I3, s5, dv2) != "Ok":
                    r["problems"].append("decoding the re-encoded bytes can fail: %s" % describe_err(F, dv2))
                    continue
                h2 = dv2.fields[0] if isinstance(dv2, VAdt) and dv2.path == RESULT else dv2
                if isinstance(h2, VTuple) and len(h2.fields) == 2:
                    h2 = h2.fields[0]
                for d in S.eq(I3, s5, hv, h2, name):
                    r["problems"].append("decode(to_bytes(decode(S))) differs: " + d)
        if len(r["problems"]) > 6:
            break
    r["problems"] = list(dict.fromkeys(r["problems"]))[:6]
    return r


def out_len(rv):
    if isinstance(rv, VArray) and rv.n is not None:
        return Lin.const(rv.n)
    if isinstance(rv, VVec):
        return rv.len
    if isinstance(rv, VRegion):
        return rv.len
    return None


def describe_err(F, dv):
    try:
        e = dv.fields[0] if isinstance(dv, VAdt) and dv.fields else dv
        names = []
        for _ in range(4):
            if not isinstance(e, VAdt):
                break
            adt = F.adts.get(e.path)
            nm = e.path.rsplit("::", 1)[1]
            if adt and adt["kind"] == "enum" and e.variant is not None:
                nm += "::" + adt["variants"][e.variant]["name"]
            names.append(nm)
            if e.fields and isinstance(e.fields[0], VAdt):
                e = e.fields[0]
            else:
                break
        return " > ".join(names) or "Err"
    except Exception:
        return "Err"


_F = None
_INV = None
_SUMM = None
_SPEC = None


def _work(T):
    S = Sib(_F, _INV, _SUMM)
    t0 = time.time()
    try:
        recs = check_type(S, _F, T, _SPEC)
        err = None
    except Exception:
        import traceback
        recs, err = [], traceback.format_exc()
    return {"type": T, "records": recs, "err": err, "time": time.time() - t0, "notes": sorted(set(S.notes))[:10]}


def run(F, inv, summaries, jobs=None, only=None):
    global _F, _INV, _SUMM, _SPEC
    _F, _INV, _SUMM, _SPEC = F, inv, summaries, load_spec()
    types = header_types(F)
    if only:
        types = [t for t in types if only in t]
    jobs = jobs or min(16, os.cpu_count() or 4)
    ctx = mp.get_context("fork")
    with ctx.Pool(jobs) as pool:
        res = pool.map(_work, types, chunksize=1)
    res.sort(key=lambda r: r["type"])
    return res


# ------------------------------------------------------------------------------------------------------------------
# reader vs slice (C06): `T::read(reader)` and `T::from_slice(slice)` on the same symbolic bytes

def err_class(F, I, st, dv):
    """('short', None) for not-enough-data errors (slice: Len, reader: Io), ('content', innermost error value)"""
    e = dv.fields[0] if isinstance(dv, VAdt) and dv.fields else dv
    for _ in range(5):
        if isinstance(e, VOpaque):
            return ("short", None) if e.key == ("ioerr", "eof") else ("other", None)
        if not isinstance(e, VAdt):
            return ("other", None)
        nm = e.path.rsplit("::", 1)[1]
        if nm == "LenError":
            return ("short", None)
        adt = F.adts.get(e.path)
        if adt and adt["kind"] == "enum" and e.variant is not None:
            vn = adt["variants"][e.variant]["name"]
            if vn == "Io":
                return ("short", None)
            # wrappers (Content(..), Len(..), ReadError::LinuxSll(..) ...): descend to the innermost error value
            if e.fields and len(e.fields) == 1 and isinstance(e.fields[0], VAdt) and e.fields[0].path.startswith("err::"):
                e = e.fields[0]
                continue
        return ("content", e)
    return ("other", None)


def merge_states(a, b):
    s = a.fork_facts()
    try:
        for f in b.facts:
            s.add_ge0(f)
        for n in b.neqs:
            s.add_ne0(n)
        s.disj = list(s.disj) + [d for d in b.disj if d not in s.disj]
        if not s.feasible():
            return None
    except Infeasible:
        return None
    return s


def check_read(S, F, T):
    name = T.rsplit("::", 1)[1]
    rd, fs = F.bodies.get(T + "::read"), F.bodies.get(T + "::from_slice")
    if rd is None or fs is None or rd["arg_count"] != 1 or fs["arg_count"] != 1:
        return None
    r = {"rule": "read", "type": T, "what": "read~from_slice", "sp": rd["span"], "problems": [], "paths": 0}
    I = S.interp()
    st0 = State()
    arg, origin, total = symbolic_input(I, st0, fs["locals"][1][0], "in")
    if arg is None:
        r["problems"].append("from_slice argument type not supported")
        return r
    sa = st0.fork()
    finA, probs, IA = S.run(fs, sa, [arg])
    sb = st0.fork()
    IB = S.interp()
    IB.opts["io_sim"] = True
    try:
        rarg = IB.materialize(sb, rd["locals"][1][0], ("rt", "reader"))
    except Infeasible:
        r["problems"].append("reader argument cannot be materialised")
        return r
    sb.notes["rd"] = (origin, Lin.const(0), total)
    finB, probs2, IB = S.run(rd, sb, [rarg], IB)
    r["problems"] += (probs + probs2)[:2]
    for (s1, av) in finA:
        for (s2, bv) in finB:
            s = merge_states(s1, s2)
            if s is None:
                continue
            r["paths"] += 1
            ca, cb = S.result_variant(IA, s, av), S.result_variant(IB, s, bv)
            if ca is None or cb is None:
                r["problems"].append("result class not decided on a joint path")
                continue
            if ca == "Ok" and cb == "Ok":
                ha = av.fields[0] if isinstance(av, VAdt) and av.path == RESULT else av
                rest = None
                if isinstance(ha, VTuple) and len(ha.fields) == 2:
                    rest, ha = ha.fields[1], ha.fields[0]
                hb = bv.fields[0] if isinstance(bv, VAdt) and bv.path == RESULT else bv
                for d in S.eq(IB, s, ha, hb, name):
                    r["problems"].append("read() and from_slice() decode different values: " + d)
                pos = s2.notes.get("rd", (None, None, None))[1]
                if rest is not None and isinstance(rest, VRegion) and pos is not None:
                    if not S.int_eq(s, pos, total - rest.len):
                        r["problems"].append("read() consumed %s bytes, from_slice() %s" % (show_lin(pos), show_lin(total - rest.len)))
            elif ca == "Err" and cb == "Err":
                ka, kb = err_class(F, IA, s, av), err_class(F, IB, s, bv)
                if ka[0] == "short" and kb[0] == "content":
                    # a truncated slice is rejected for its length before the content is looked at; the reader finds
                    # the content fault in the bytes it could still pull: the property compares slices that hold the
                    # whole announced packet, the order of these two checks on truncated data is not fixed by it
                    r["order_only"] = r.get("order_only", 0) + 1
                elif ka[0] != kb[0]:
                    r["problems"].append("different rejection reasons: from_slice %s (%s), read %s (%s)" % (
                        ka[0], describe_err(F, av), kb[0], describe_err(F, bv)))
                elif ka[0] == "content" and ka[1] is not None and kb[1] is not None:
                    for d in S.eq(IB, s, ka[1], kb[1], "error"):
                        r["problems"].append("different content errors: " + d)
            elif ca == "Err" and cb == "Ok" and err_class(F, IA, s, av)[0] == "short" and \
                    s2.notes.get("rd") is not None and s.entails(total - s2.notes["rd"][1] - 1):
                # the slice decoder rejects a slice that is *longer* than the message it announces (exact-length
                # formats such as the ICMP timestamp message); the property compares slices holding the packet
                r["longer_slice_only"] = r.get("longer_slice_only", 0) + 1
            else:
                r["problems"].append("from_slice returns %s (%s) where read returns %s (%s) for the same bytes" % (
                    ca, describe_err(F, av) if ca == "Err" else "value", cb, describe_err(F, bv) if cb == "Err" else "value"))
            if len(r["problems"]) > 5:
                break
        if len(r["problems"]) > 5:
            break
    r["problems"] = list(dict.fromkeys(r["problems"]))[:5]
    return r


def _work_read(T):
    S = Sib(_F, _INV, _SUMM)
    t0 = time.time()
    try:
        rec = check_read(S, _F, T)
        err = None
    except Exception:
        import traceback
        rec, err = None, traceback.format_exc()
    return {"type": T, "records": [rec] if rec else [], "err": err, "time": time.time() - t0, "notes": sorted(set(S.notes))[:10]}


def run_read(F, inv, summaries, jobs=None, only=None):
    global _F, _INV, _SUMM, _SPEC
    _F, _INV, _SUMM, _SPEC = F, inv, summaries, load_spec()
    hts = set(header_types(F))
    types = sorted({b["path"].rsplit("::", 1)[0] for b in F.body_list
                    if b["path"].endswith("::read") and b["kind"] != "Closure" and not b.get("derived")} & hts)
    if only:
        types = [t for t in types if only in t]
    jobs = jobs or min(16, os.cpu_count() or 4)
    ctx = mp.get_context("fork")
    with ctx.Pool(jobs) as pool:
        res = pool.map(_work_read, types, chunksize=1)
    res.sort(key=lambda r: r["type"])
    return res
