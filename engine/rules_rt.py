"""Round-trip rules (C08): decode(encode(h)) == h, announced length == emitted length, writers agree with to_bytes.

For every header type with a `to_bytes` the encoder is interpreted on a fully symbolic value (one start state per
variant combination of its enum fields, type invariants assumed); every decoder of the type is then interpreted on the
symbolic bytes in the encoder's final state, and the decoded value is compared field by field with the original under
the joint path condition.  Bytes are bit-field-structured linear expressions over the field atoms, so the comparison
holds for all field values at once.
"""
import os
import json
import time
import multiprocessing as mp
from .lin import Lin, show_lin
from .values import *
from .sib import Sib, RESULT

VERIF = os.path.dirname(os.path.dirname(os.path.abspath(__file__)))
DECODERS = ("from_bytes", "from_slice")


def load_spec():
    with open(os.path.join(VERIF, "spec", "roundtrip.json")) as f:
        return json.load(f)


def header_types(F):
    out = []
    for b in F.body_list:
        p = b["path"]
        if b["kind"] != "Closure" and p.endswith("::to_bytes") and b["arg_count"] == 1 and not b.get("derived"):
            out.append(p.rsplit("::", 1)[0])
    return sorted(set(out))


def permitted(spec, diff):
    """a difference that the spec lists as a documented normalisation"""
    for e in spec.get("normalisations", []):
        if e["match"] in diff:
            return e
    return None


def check_type(S, F, T, spec):
    """-> list of instance records"""
    recs = []
    enc = F.bodies[T + "::to_bytes"]
    I = S.interp()
    st = State()
    try:
        a0 = I.materialize(st, enc["locals"][1][0], ("rt", "self"))
    except Infeasible:
        return [{"rule": "rt", "type": T, "what": "to_bytes", "problems": ["type invariant is bottom (never constructed)"]}]
    starts = S.split_enums(I, st, a0)
    enc_finals = []
    enc_problems = []
    for (s0, desc) in starts:
        orig = I.load(s0, ("place", a0.fid, a0.local, a0.projs)) if isinstance(a0, VRef) else a0
        fin, probs, I0 = S.run(enc, s0, [a0])
        enc_problems += probs
        for (s1, rv) in fin:
            enc_finals.append((s1, rv, orig, desc))
    name = T.rsplit("::", 1)[1]
    # --- rule len: header_len(self) == number of bytes emitted
    hl = F.bodies.get(T + "::header_len")
    if hl is not None and hl["arg_count"] == 1:
        r = {"rule": "len", "type": T, "what": "header_len", "sp": hl["span"], "problems": [], "paths": 0}
        for (s1, rv, orig, desc) in enc_finals:
            n = out_len(rv)
            if n is None:
                r["problems"].append("length of the to_bytes result is not tracked")
                break
            s2 = s1.fork()
            fin, probs, I2 = S.run(hl, s2, [a0])
            for (s3, hv) in fin:
                r["paths"] += 1
                if not (isinstance(hv, VInt) and S.int_eq(s3, hv.lin, n)):
                    r["problems"].append("%sheader_len() = %s but to_bytes() emits %s bytes" % (
                        (desc + ": ") if desc else "", show_lin(hv.lin) if isinstance(hv, VInt) else "?", show_lin(n)))
                    break
            if r["problems"]:
                break
        recs.append(r)
    # --- rule rt: decode(to_bytes(self)) == self
    for dn in DECODERS:
        dec = F.bodies.get(T + "::" + dn)
        if dec is None or dec["arg_count"] != 1:
            continue
        r = {"rule": "rt", "type": T, "what": dn, "sp": dec["span"], "problems": list(enc_problems[:2]), "paths": 0,
             "normalised": 0}
        for (s1, rv, orig, desc) in enc_finals:
            s2 = s1.fork()
            Itmp = S.interp()
            inp = S.as_input(Itmp, s2, rv, dec["locals"][1][0], "buf")
            if inp is None:
                r["problems"].append("contents of the to_bytes result are not tracked (%s)" % repr(rv)[:60])
                break
            arg, n = inp
            fin, probs, I2 = S.run(dec, s2, [arg], Itmp)
            for p in probs[:2]:
                r["problems"].append(p)
            for (s3, dv) in fin:
                if not s3.feasible():
                    continue
                r["paths"] += 1
                pre = (desc + ": ") if desc else ""
                cls = S.result_variant(I2, s3, dv)
                if cls != "Ok":
                    d = "%sdecoding the encoder's output can fail: %s" % (pre, describe_err(F, dv))
                    e = permitted(spec, name + "|" + d)
                    if e is None:
                        r["problems"].append(d)
                    else:
                        r["normalised"] += 1
                    continue
                hv = dv
                if isinstance(dv, VAdt) and dv.path == RESULT:
                    hv = dv.fields[0]
                rest = None
                if isinstance(hv, VTuple) and len(hv.fields) == 2:
                    rest = hv.fields[1]
                    hv = hv.fields[0]
                diffs = S.eq(I2, s3, orig, hv, name)
                if rest is not None and isinstance(rest, VRegion) and not s3.entails(-rest.len):
                    diffs.append("%s: remainder after decoding is not empty (%s)" % (name, show_lin(rest.len)))
                for d in diffs:
                    e = permitted(spec, pre + d)
                    if e is None:
                        r["problems"].append(pre + d)
                    else:
                        r["normalised"] += 1
            if len(r["problems"]) > 4:
                break
        r["problems"] = list(dict.fromkeys(r["problems"]))[:5]
        recs.append(r)
    # --- rule rt2: for every accepted byte string S:  to_bytes(decode(S)) == S[..n] (modulo reserved bits),
    #     n bytes consumed, and decoding the re-encoded bytes gives the same value again
    for dn in DECODERS:
        dec = F.bodies.get(T + "::" + dn)
        if dec is None or dec["arg_count"] != 1:
            continue
        recs.append(check_rt2(S, F, T, name, enc, dec, dn, spec))
    return recs


def symbolic_input(I, st, ty, tag):
    """symbolic argument of type &[u8] / [u8; N] / &[u8; N]: (arg, origin, length Lin)"""
    from .lin import reg_atom, I64MAX
    t = I.rt(ty)
    origin = ("s", ("rt", tag))
    if isinstance(t, dict) and t["k"] == "array" and t["len"] is not None:
        n = t["len"]
        elems = tuple(VInt(Lin.atom(reg_atom(("byte", origin, Lin.const(i).key()), 0, 255))) for i in range(n))
        return VArray(elems, n, None, "u8"), origin, Lin.const(n)
    if isinstance(t, dict) and t["k"] == "ref":
        to = I.rt(t["to"])
        if isinstance(to, dict) and to["k"] == "slice":
            ln = Lin.atom(reg_atom(("len", origin), 0, I64MAX))
            return VRegion(origin, Lin.const(0), ln, False), origin, ln
        if isinstance(to, dict) and to["k"] == "array" and to["len"] is not None:
            return VRegion(origin, Lin.const(0), Lin.const(to["len"]), False), origin, Lin.const(to["len"])
    return None, None, None


def reserved_mask(spec, name, i):
    m = 0
    for e in spec.get("reserved_bits", []):
        if e["type"] == name and e["byte"] == i:
            m |= e["mask"]
    return m


def check_rt2(S, F, T, name, enc, dec, dn, spec):
    r = {"rule": "rt2", "type": T, "what": dn, "sp": dec["span"], "problems": [], "paths": 0, "normalised": 0}
    I = S.interp()
    st = State()
    arg, origin, total = symbolic_input(I, st, dec["locals"][1][0], "in")
    if arg is None:
        r["problems"].append("decoder argument type not supported")
        return r
    fin, probs, I = S.run(dec, st, [arg], I)
    r["problems"] += probs[:2]
    for (s1, dv) in fin:
        if not s1.feasible():
            continue
        if S.result_variant(I, s1, dv) != "Ok":
            continue  # rejected inputs are not part of this rule
        hv = dv.fields[0] if isinstance(dv, VAdt) and dv.path == RESULT else dv
        rest = None
        if isinstance(hv, VTuple) and len(hv.fields) == 2:
            rest, hv = hv.fields[1], hv.fields[0]
        if not isinstance(hv, VAdt):
            r["problems"].append("decoded value is not tracked")
            break
        r["paths"] += 1
        oid = ("h", ("rt", "hdr"))
        s1.heap[oid] = hv
        ref = VRef(0, oid, (), False)
        fin2, probs2, I2 = S.run(enc, s1, [ref])
        r["problems"] += probs2[:2]
        for (s2, bv) in fin2:
            if not s2.feasible():
                continue
            n = out_len(bv)
            if n is None:
                r["problems"].append("length of the re-encoded bytes is not tracked")
                continue
            if rest is not None and isinstance(rest, VRegion):
                consumed = total - rest.len
                if not S.int_eq(s2, consumed, n):
                    r["problems"].append("decoding consumed %s bytes but re-encoding emits %s" % (show_lin(consumed), show_lin(n)))
            elif not S.int_eq(s2, total, n) and dn == "from_bytes":
                r["problems"].append("from_bytes takes %s bytes but to_bytes emits %s" % (show_lin(total), show_lin(n)))
            # bytes
            data = bv.elems if isinstance(bv, VArray) else (bv.data if isinstance(bv, VVec) else None)
            if data is None:
                r["problems"].append("contents of the re-encoded bytes are not tracked")
                continue
            for i, x in enumerate(data):
                if s2.entails(Lin.const(i) - n):
                    break
                s3 = s2
                if not s2.entails(n - i - 1):
                    s3 = s2.fork_facts()
                    try:
                        s3.add_ge0(n - i - 1)
                        if not s3.feasible():
                            continue
                    except Infeasible:
                        continue
                if x is None:
                    r["problems"].append("re-encoded byte %d is not tracked" % i)
                    break
                y = I2.read_byte(s3, origin, Lin.const(i))
                rm = reserved_mask(spec, name, i)
                a, b = x, y
                if rm:
                    keep = 255 & ~rm
                    a = VInt(I2.bitand(x.lin, Lin.const(keep), "u8", s3))
                    b = VInt(I2.bitand(y.lin, Lin.const(keep), "u8", s3))
                    r["normalised"] += 1
                if isinstance(a, VInt) and S.int_eq(s3, a.lin, b.lin):
                    r["bytes_equal"] = r.get("bytes_equal", 0) + 1
                else:
                    # not a failure by itself: bits the decoder does not read are reserved / normalised; what must
                    # hold is that decoding the re-encoded bytes gives the same value (checked below)
                    r["bytes_normalised"] = r.get("bytes_normalised", 0) + 1
            # decode again
            s4 = s2.fork()
            Itmp = S.interp()
            inp = S.as_input(Itmp, s4, bv, dec["locals"][1][0], "buf2")
            if inp is None:
                continue
            fin3, probs3, I3 = S.run(dec, s4, [inp[0]], Itmp)
            for (s5, dv2) in fin3:
                if not s5.feasible():
                    continue
                if S.result_variant(I3, s5, dv2) != "Ok":
                    r["problems"].append("decoding the re-encoded bytes can fail: %s" % describe_err(F, dv2))
                    continue
                h2 = dv2.fields[0] if isinstance(dv2, VAdt) and dv2.path == RESULT else dv2
                if isinstance(h2, VTuple) and len(h2.fields) == 2:
                    h2 = h2.fields[0]
                for d in S.eq(I3, s5, hv, h2, name):
                    r["problems"].append("decode(to_bytes(decode(S))) differs: " + d)
        if len(r["problems"]) > 6:
            break
    r["problems"] = list(dict.fromkeys(r["problems"]))[:6]
    return r


def out_len(rv):
    if isinstance(rv, VArray) and rv.n is not None:
        return Lin.const(rv.n)
    if isinstance(rv, VVec):
        return rv.len
    if isinstance(rv, VRegion):
        return rv.len
    return None


def describe_err(F, dv):
    try:
        e = dv.fields[0] if isinstance(dv, VAdt) and dv.fields else dv
        names = []
        for _ in range(4):
            if not isinstance(e, VAdt):
                break
            adt = F.adts.get(e.path)
            nm = e.path.rsplit("::", 1)[1]
            if adt and adt["kind"] == "enum" and e.variant is not None:
                nm += "::" + adt["variants"][e.variant]["name"]
            names.append(nm)
            if e.fields and isinstance(e.fields[0], VAdt):
                e = e.fields[0]
            else:
                break
        return " > ".join(names) or "Err"
    except Exception:
        return "Err"


_F = None
_INV = None
_SUMM = None
_SPEC = None


def _work(T):
    S = Sib(_F, _INV, _SUMM)
    t0 = time.time()
    try:
        recs = check_type(S, _F, T, _SPEC)
        err = None
    except Exception:
        import traceback
        recs, err = [], traceback.format_exc()
    return {"type": T, "records": recs, "err": err, "time": time.time() - t0, "notes": sorted(set(S.notes))[:10]}


def run(F, inv, summaries, jobs=None, only=None):
    global _F, _INV, _SUMM, _SPEC
    _F, _INV, _SUMM, _SPEC = F, inv, summaries, load_spec()
    types = header_types(F)
    if only:
        types = [t for t in types if only in t]
    jobs = jobs or min(16, os.cpu_count() or 4)
    ctx = mp.get_context("fork")
    with ctx.Pool(jobs) as pool:
        res = pool.map(_work, types, chunksize=1)
    res.sort(key=lambda r: r["type"])
    return res
