"""R-gda / R-offset / len-source rules for LenError (C07), decided on E1 values.

A dedicated interpreter pass (inline depth 0: every crate call except tiny leaves and closures is replaced by
an unconstrained result of its type) is run over every function that can return a LenError.  Three hooks:

 * construction of `LenError {..}`: the path facts must entail the relation the record asserts and the
   operands must be the compared values (R-gda);
 * results of calls that may carry a LenError are tagged with the offset/length of the byte slice that was
   handed to the callee; when the function returns an error derived from such a result its
   `layer_start_offset` must be the callee's value plus exactly that offset (+ the cursor's consumed-byte
   count for the packet cursors) (R-offset), and a non-`Slice` length source may only be attached when the
   slice handed to the callee was cut by a wire length field rather than by the enclosing slice (len-source).
"""
import os
import time
import multiprocessing as mp
from .lin import Lin, show_lin, static_bounds, lin_from_key
from .values import *
from .absint import Interp, VByteRef
from .models import M, as_region

LENERR = "err::len_error::LenError"
CURSORS = ("sliced_packet_cursor::SlicedPacketCursor", "lax_sliced_packet_cursor::LaxSlicedPacketCursor")


def adts_with_lenerr(F):
    """set of ADT paths that (transitively) contain a LenError"""
    if hasattr(F, "_lenerr_adts"):
        return F._lenerr_adts
    res = {LENERR}
    changed = True

    def ty_has(t, depth=0):
        t = F.types[t] if isinstance(t, int) else t
        if isinstance(t, str) or depth > 8:
            return False
        k = t["k"]
        if k == "adt":
            if t["path"] in res:
                return True
            return any("t" in a and ty_has(a["t"], depth + 1) for a in t["args"])
        if k in ("ref", "ptr"):
            return ty_has(t["to"], depth + 1)
        if k in ("slice", "array"):
            return ty_has(t["of"], depth + 1)
        if k == "tuple":
            return any(ty_has(x, depth + 1) for x in t["of"])
        return False
    while changed:
        changed = False
        for p, a in F.adts.items():
            if p in res or not a["local"]:
                continue
            if any(ty_has(f["ty"]) for v in a["variants"] for f in v["fields"]):
                res.add(p)
                changed = True
    F._lenerr_adts = res
    F._ty_has_lenerr = ty_has
    return res


def ty_has_lenerr(F, t):
    adts_with_lenerr(F)
    return F._ty_has_lenerr(t)


def candidate_functions(F):
    out = []
    for b in F.body_list:
        if b["kind"] == "Closure":
            continue
        if b.get("derived"):
            continue
        if b["path"].startswith(("err::", "<err::")):
            continue
        if ty_has_lenerr(F, b["locals"][0][0]):
            out.append(b["path"])
    return out


def variant_name(I, path, idx):
    adt = I.F.adts.get(path)
    if adt and idx is not None and idx < len(adt["variants"]):
        return adt["variants"][idx]["name"]
    return None


def find_lenerrs(I, st, v, depth=0, materialise=True):
    """yield LenError VAdt values inside v (lazily materialising variants that can hold one)"""
    if depth > 6 or v is None:
        return
    if isinstance(v, VAdt):
        if v.path == LENERR and v.fields is not None:
            yield v
            return
        if v.fields is not None:
            for f in v.fields:
                if isinstance(f, (VAdt, VTuple)):
                    for x in find_lenerrs(I, st, f, depth + 1, materialise):
                        yield x
        elif materialise and v.variant is None and v.ty is not None:
            adt = I.F.adts.get(v.path)
            if adt is None:
                return
            for i, var in enumerate(adt["variants"]):
                ftys = I.field_tys(v.ty, i)
                if ftys and any(ty_has_lenerr(I.F, ft) for ft in ftys):
                    fs = I.variant_fields(st, v, i)
                    if fs:
                        for f in fs:
                            if isinstance(f, (VAdt, VTuple)):
                                for x in find_lenerrs(I, st, f, depth + 1, materialise):
                                    yield x
    elif isinstance(v, VTuple):
        for f in v.fields:
            if isinstance(f, (VAdt, VTuple)):
                for x in find_lenerrs(I, st, f, depth + 1, materialise):
                    yield x


class LenInterp(Interp):
    def __init__(self, F, inv, mode="offset"):
        super().__init__(F, M, inv, max_depth=0 if mode == "offset" else 2, budget=300000)
        self.mode = mode
        self.records = []  # rule records
        self.opts["bitor_oblig"] = False

    # ---- R-gda: construction of LenError
    def eval_rvalue(self, st, fr, rv, dest_ty):
        v = super().eval_rvalue(st, fr, rv, dest_ty)
        if self.mode == "gda" and rv["rv"] == "agg" and rv["kind"].get("agg") == "adt" and \
                rv["kind"]["path"] == LENERR and isinstance(v, VAdt) and len(st.frames) == 1:
            self.check_construction(st, fr, v)
        return v

    def check_construction(self, st, fr, v):
        req, ln, src, layer, lso = v.fields
        rec = {"rule": "gda", "fn": fr.body["path"], "site": self.cur_site, "sp": self.cur_sp, "problems": []}
        srcname = variant_name(self, "len_source::LenSource", src.variant) if isinstance(src, VAdt) else None
        layername = variant_name(self, "err::layer::Layer", layer.variant) if isinstance(layer, VAdt) else None
        rec["layer"] = layername
        rec["len_source"] = srcname
        if isinstance(req, VInt) and isinstance(ln, VInt):
            d = req.lin - ln.lin
            if st.entails(d - 1):
                rec["relation"] = "required_len > len"
            elif st.entails((-d) - 1):
                rec["relation"] = "required_len < len"
            elif st.holds(("ne", d)):
                rec["relation"] = "required_len != len"
            else:
                rec["relation"] = None
                rec["problems"].append("path condition does not entail required_len > len (nor <, !=): "
                                       "required_len=%s len=%s; facts: %s" % (show_lin(req.lin), show_lin(ln.lin),
                                                                              self.show_facts(st, d)))
            # `len` must be the quantity that was compared: a slice length when the source is the slice
            rec["len_expr"] = show_lin(ln.lin)
            rec["req_expr"] = show_lin(req.lin)
            has_len_atom = any(isinstance(a, tuple) and a and a[0] == "len" for a in ln.lin.atoms())
            if srcname == "Slice" and not has_len_atom and not ln.lin.is_const():
                # acceptable when len is a region length that happens to be symbolic (sub-region)
                if not self.is_region_len(st, fr, ln.lin):
                    rec["problems"].append("len_source is Slice but `len` (%s) is not the length of a slice in scope"
                                           % show_lin(ln.lin))
            if srcname == "Slice" and has_len_atom:
                if not self.is_region_len(st, fr, ln.lin):
                    rec["problems"].append("`len` (%s) is not the length of the slice that was checked" %
                                           show_lin(ln.lin))
        else:
            rec["relation"] = "?"
        if isinstance(lso, VInt):
            reg0, _ = self.root_base(st, fr)
            if reg0 is not None and not (lso.lin.is_const() and lso.lin.c == 0):
                rec["nonzero_offset_at_creation"] = show_lin(lso.lin)
        self.records.append(rec)

    def is_region_len(self, st, fr, lin):
        """is lin the length of some byte region held in a local of the root frame"""
        for l, val in fr.locals.items():
            for r in regions_in(val):
                if r.len == lin:
                    return True
        for oid, val in st.heap.items():
            for r in regions_in(val):
                if r.len == lin:
                    return True
        return False

    # ---- tagging of callee results
    def havoc_call(self, st, args, dty, ret_k, t, callee_body=None):
        if self.mode != "offset" or len(st.frames) != 1 or dty is None or not ty_has_lenerr(self.F, dty):
            return super().havoc_call(st, args, dty, ret_k, t, callee_body)
        regs = []
        for a in args:
            r = as_region(self, st, a) if isinstance(a, (VRegion, VRef)) else None
            if r is not None and not r.mut:
                regs.append(r)
            elif isinstance(a, (VAdt, VTuple)):
                for r2 in regions_in(a):
                    if not r2.mut:
                        regs.append(r2)
        cursor_self = None
        for a in args:
            if isinstance(a, VRef):
                tv = self.load(st, ("place", a.fid, a.local, a.projs))
                if isinstance(tv, VAdt) and tv.path in CURSORS and tv.fields is not None:
                    cursor_self = tv
        site = self.cur_site
        sp = self.cur_sp
        callee_path = callee_body["path"] if callee_body is not None else None

        only_slice = False
        if callee_path is not None:
            ls = (self.summaries.get(callee_path) or {}).get("__lensrc__")
            slice_idx = None
            adt = self.F.adts.get("len_source::LenSource")
            if adt:
                for i_, v_ in enumerate(adt["variants"]):
                    if v_["name"] == "Slice":
                        slice_idx = i_
            if ls is not None and set(ls) == {slice_idx}:
                only_slice = True

        def k2(st2, val):
            if len(regs) == 1:
                for le in find_lenerrs(self, st2, val):
                    if only_slice and isinstance(le.fields[2], VAdt) and le.fields[2].variant is None:
                        try:
                            da = self.discr_atom(le.fields[2])
                            st2.add_ge0(Lin.atom(da).scale(-1) + self.discr_of_variant("len_source::LenSource", slice_idx))
                            st2.add_ge0(Lin.atom(da) - self.discr_of_variant("len_source::LenSource", slice_idx))
                        except Exception:
                            pass
                    lso = le.fields[4]
                    if isinstance(lso, VInt):
                        a = lso.lin.single_atom()
                        if a is not None:
                            tags = dict(st2.notes.get("lenerr", {}))
                            cur_off = None
                            if cursor_self is not None and isinstance(cursor_self.fields[0], VInt):
                                # the callee is a cursor method: it reports offsets including cursor.offset
                                cur_off = cursor_self.fields[0].lin
                            tags[a] = {"region": regs[0], "site": site, "sp": sp, "callee": callee_path,
                                       "callee_cursor_offset": cur_off,
                                       "src": le.fields[2]}
                            st2.notes["lenerr"] = tags
            return ret_k(st2, val)
        return super().havoc_call(st, args, dty, k2, t, callee_body)

    def exec_call(self, st, fr, t):
        # remember the callee body for havoc_call tagging
        self._cur_callee = t["callee"]
        return super().exec_call(st, fr, t)

    # ---- checks at the function's return
    def exec_return(self, st, fr):
        if len(st.frames) == 1 and self.mode == "offset":
            rv = fr.locals.get(0)
            self.check_return(st, fr, rv)
        return super().exec_return(st, fr)

    def root_base(self, st, fr):
        """(input region, base offset Lin) of the root function: offsets are reported relative to the start of
        the (first) byte slice parameter; packet cursors add the bytes they consumed so far"""
        body = fr.body
        reg = None
        base = Lin.const(0)
        for i in range(body["arg_count"]):
            key = ("arg", body["path"], i)
            t = self.rt(body["locals"][i + 1][0])
            if isinstance(t, dict) and t["k"] == "ref":
                to = self.rt(t["to"])
                if isinstance(to, dict) and to["k"] in ("slice", "array") and self.is_u8(to["of"]) and reg is None \
                        and not t["mut"]:
                    reg = ("s", key)
                if isinstance(to, dict) and to["k"] == "adt" and to["path"] in CURSORS:
                    # offset field (index 0) at entry
                    from .lin import reg_atom
                    base = Lin.atom(("v", key + ("*", 0)))
            if isinstance(t, dict) and t["k"] == "adt" and t["path"] in CURSORS:
                base = Lin.atom(("v", key + (0,)))
        return reg, base

    def check_return(self, st, fr, rv):
        tags = st.notes.get("lenerr")
        if not tags or rv is None:
            return
        reg0, base = self.root_base(st, fr)
        for le in find_lenerrs(self, st, rv, materialise=False):
            lso = le.fields[4]
            if not isinstance(lso, VInt):
                continue
            hit = [a for a in lso.lin.atoms() if a in tags]
            if len(hit) != 1:
                continue
            tag = tags[hit[0]]
            if lso.lin.t.get(hit[0]) != 1:
                continue
            added = lso.lin - Lin.atom(hit[0])
            r = tag["region"]
            rec = {"rule": "offset", "fn": fr.body["path"], "site": tag["site"], "sp": tag["sp"],
                   "callee": tag["callee"], "problems": [], "added": show_lin(added)}
            if reg0 is not None and r.origin == reg0:
                expected = r.off + base
                if tag["callee_cursor_offset"] is not None:
                    # callee (a cursor method) already reports offsets including the cursor's counter at the call
                    expected = Lin.const(0)
                d = added - expected
                ok = st.entails(d) and st.entails(-d)
                rec["expected"] = show_lin(expected)
                unknown_off = [a for a in expected.atoms() if isinstance(a, tuple) and len(a) > 1 and
                               isinstance(a[1], tuple) and a[1] and a[1][0] == "aoff" and a not in added.atoms()]
                def opaque_atom(a):
                    # value produced by a callee that was not inlined (not an alias offset/length of a sub-slice)
                    r_ = repr(a)
                    return "'ret'" in r_ and "'aoff'" not in r_ and "'alen'" not in r_
                added_opaque = any(opaque_atom(a) for a in added.atoms())
                if not ok and unknown_off and added_opaque:
                    # the callee that produced the sub-slice does not expose its (wire dependent) offset: inconclusive
                    rec["inconclusive"] = True
                    rec["expected"] = None
                elif not ok:
                    rec["problems"].append("error offset fix-up is %s but the slice handed to %s starts at offset %s of "
                                           "the input (expected fix-up %s)" % (show_lin(added), tag["callee"],
                                                                               show_lin(r.off), show_lin(expected)))
            else:
                rec["expected"] = None
            # len-source override: the callee's own source may only be replaced when it was `Slice`
            src = le.fields[2]
            tsrc = tag["src"]
            from .loops import same_value
            if isinstance(src, VAdt) and isinstance(tsrc, VAdt) and not same_value(src, tsrc):
                okk = False
                if tsrc.variant is not None:
                    okk = variant_name(self, "len_source::LenSource", tsrc.variant) == "Slice"
                else:
                    try:
                        da = self.discr_atom(tsrc)
                        adt = self.F.adts.get("len_source::LenSource")
                        sidx = [i_ for i_, v_ in enumerate(adt["variants"]) if v_["name"] == "Slice"][0]
                        dv = self.discr_of_variant("len_source::LenSource", sidx)
                        okk = st.holds(("eq", Lin.atom(da) - dv))
                    except Exception:
                        okk = False
                if not okk:
                    rec["problems"].append("len_source reported by %s is replaced although it may already name a header "
                                           "length field (override must be limited to LenSource::Slice)" % tag["callee"])
            if isinstance(src, VAdt) and src.variant is not None and src is not tag["src"]:
                name = variant_name(self, "len_source::LenSource", src.variant)
                rec["len_source_set"] = name
                bounded_by_slice = any(isinstance(a, tuple) and a and a[0] == "len" and a[1] == reg0
                                       for a in r.len.atoms())
                wire = any(isinstance(a, tuple) and a and a[0] == "byte" or
                           (isinstance(a, tuple) and a and a[0] in ("and", "shr") and "byte" in repr(a))
                           for a in r.len.atoms())
                if name != "Slice" and bounded_by_slice and not wire:
                    rec["problems"].append("len_source %s attached although the slice handed to %s was bounded by the "
                                           "enclosing slice (len %s), not by that header field" %
                                           (name, tag["callee"], show_lin(r.len)))
                if name == "Slice" and wire and not bounded_by_slice and False:
                    pass
            self.records.append(rec)


def regions_in(v, depth=0):
    if depth > 4 or v is None:
        return
    if isinstance(v, VRegion):
        yield v
    elif isinstance(v, VAdt) and v.fields is not None:
        for f in v.fields:
            for r in regions_in(f, depth + 1):
                yield r
    elif isinstance(v, (VTuple, VClosure)):
        for f in v.fields:
            for r in regions_in(f, depth + 1):
                yield r


_F = None
_INV = None
_SUMM = {}


def _work(paths):
    out = []
    for p in paths:
        b = _F.bodies[p]
        recs = []
        err = None
        aborted = False
        steps = 0
        for mode in ("offset", "gda"):
            I = LenInterp(_F, _INV, mode)
            I.summaries = _SUMM
            try:
                I.analyze_root(b, assume_inv=True)
            except Exception:
                import traceback
                err = traceback.format_exc()
            if any(e[0] == "abort" for e in I.sink.events):
                aborted = True
            recs.extend(I.records)
            steps += I.steps
        out.append({"fn": p, "records": recs, "err": err, "aborted": aborted, "steps": steps})
    return out


def run(F, inv, jobs=None, summaries=None):
    global _F, _INV, _SUMM
    _F = F
    _INV = inv
    _SUMM = summaries or {}
    fns = candidate_functions(F)
    jobs = jobs or min(16, os.cpu_count() or 4)
    chunks = [fns[i::jobs * 4] for i in range(jobs * 4)]
    chunks = [c for c in chunks if c]
    res = []
    ctx = mp.get_context("fork")
    with ctx.Pool(jobs) as pool:
        for r in pool.imap_unordered(_work, chunks):
            res.extend(r)
    res.sort(key=lambda r: r["fn"])
    return res
