"""E1: path-sensitive abstract interpreter over exported MIR."""
import sys
from .lin import Lin, reg_atom, ATOM_LO, ATOM_HI, ATOM_MASK, static_bounds, I64MAX, U64MAX, show_lin, \
    lin_from_key
from .values import *
from .facts import INT_TYPES, INT_BITS, cfg_info

sys.setrecursionlimit(10000)


class AnalysisAbort(Exception):
    pass


class Oblig:
    __slots__ = ("kind", "fn", "site", "desc", "proved", "ctx", "sp", "detail", "trivial", "expn")

    def __init__(self, kind, fn, site, desc, proved, ctx, sp, detail="", trivial=False, expn=None):
        self.kind = kind
        self.fn = fn
        self.site = site
        self.desc = desc
        self.proved = proved
        self.ctx = ctx
        self.sp = sp
        self.detail = detail
        self.trivial = trivial
        self.expn = expn

    def key(self):
        return (self.fn, self.site, self.kind, self.desc)


class Sink:
    def __init__(self):
        self.obligs = []
        self.events = []  # misc facts recorded by models / rules (e.g. construction sites)

    def add(self, o):
        self.obligs.append(o)


def mask_of_lin(l):
    """may-be-set bits of a non-negative Lin (None if unknown)"""
    if l.is_const():
        return l.c if l.c >= 0 else None
    m = 0
    if l.c < 0:
        return None
    parts = []
    for a, k in l.t.items():
        if k <= 0 or (k & (k - 1)) != 0:
            parts = None
            break
        am = ATOM_MASK.get(a)
        if am is None:
            parts = None
            break
        parts.append(am << (k.bit_length() - 1))
    if parts is not None:
        if l.c:
            parts.append(l.c)
        acc = 0
        ok = True
        for p in parts:
            if acc & p:
                ok = False
                break
            acc |= p
        if ok:
            return acc
    lo, hi = static_bounds(l)
    if lo is not None and lo >= 0 and hi is not None:
        return (1 << hi.bit_length()) - 1
    return None


def typestate_structs(F):
    out = set()
    for p, a in F.adts.items():
        if not (a["local"] and a["kind"] == "struct"):
            continue
        for f in a["variants"][0]["fields"]:
            t = F.types[f["ty"]] if isinstance(f["ty"], int) else f["ty"]
            if isinstance(t, dict) and t["k"] == "adt" and t["path"].endswith("PhantomData"):
                for x in t["args"]:
                    if "t" in x:
                        tt = F.types[x["t"]] if isinstance(x["t"], int) else x["t"]
                        if isinstance(tt, dict) and tt["k"] == "param":
                            out.add(p)
    return out


class Interp:
    def __init__(self, facts, models, invariants=None, max_depth=2, budget=20000, sink=None, opts=None):
        self.F = facts
        self.models = models
        self.inv = invariants or {}
        self.max_depth = max_depth
        self.budget = budget
        self.steps = 0
        self.sink = sink or Sink()
        self.opts = opts or {}
        self.finals = []  # (state, retval) of root returns
        self.root = None
        self.opaque_calls = []  # (callee path, ctx) calls not inlined due to depth
        self.construction_hook = None
        self.return_hook = None
        self.pending_closures = []
        self.collect_prov = False
        self.keep_finals = False
        self.prov = None  # path -> [prefix, suffix] | "foreign"
        self.summaries = {}
        self.inv_targets = None
        self.inv_used = set()
        self.trusted_ctx = frozenset()
        self.rootset = frozenset()
        self.inv_records = {}
        self.entered = set()
        self.cur_site = None
        self.cur_sp = None
        self.cur_expn = None

    # ------------------------------------------------------------------ impl indexes
    def tstr(self, t):
        t = self.rt(t)
        if isinstance(t, str):
            return t
        k = t["k"]
        if k == "adt":
            args = []
            for a in t["args"]:
                if "t" in a:
                    args.append(self.tstr(a["t"]))
                else:
                    args.append(str(a.get("c")))
            return t["path"] + ("<" + ",".join(args) + ">" if args else "")
        if k == "ref":
            return ("&mut " if t["mut"] else "&") + self.tstr(t["to"])
        if k == "ptr":
            return ("*mut " if t["mut"] else "*const ") + self.tstr(t["to"])
        if k == "slice":
            return "[" + self.tstr(t["of"]) + "]"
        if k == "array":
            return "[%s; %s]" % (self.tstr(t["of"]), t["len"])
        if k == "tuple":
            return "(" + ",".join(self.tstr(x) for x in t["of"]) + ")"
        if k == "param":
            return t["name"]
        return t.get("s") or t.get("path") or k

    def _build_impl_indexes(self):
        self._from = {}
        self._tryfrom = {}
        self._traitimpl = {}
        for b in self.F.body_list:
            tr = b.get("trait")
            if not tr or "self_ty" not in b:
                continue
            name = b["path"].rsplit("::", 1)[1].split("@")[0]
            sty = self.rt(b["self_ty"])
            s = self.tstr(sty)
            targs = [self.tstr(a["t"]) for a in b.get("trait_args", []) if "t" in a]
            # trait_args include Self first
            if tr == "core::convert::From" and name == "from" and len(targs) >= 2:
                self._from[(s, targs[1])] = b
            if tr == "core::convert::TryFrom" and name == "try_from" and len(targs) >= 2:
                self._tryfrom[(s, targs[1])] = b
            if isinstance(sty, dict) and sty["k"] == "adt":
                self._traitimpl[(sty["path"], tr, name)] = b

    def from_impl_index(self):
        if not hasattr(self, "_from"):
            self._build_impl_indexes()
        return self._from

    def tryfrom_impl_index(self):
        if not hasattr(self, "_from"):
            self._build_impl_indexes()
        return self._tryfrom

    def trait_impl_index(self):
        if not hasattr(self, "_from"):
            self._build_impl_indexes()
        return self._traitimpl

    # ------------------------------------------------------------------ types
    def rt(self, t):
        if isinstance(t, int):
            return self.F.types[t]
        return t

    def subst_ty(self, t, subst):
        """substitute generic params (dict name->type) in type t"""
        t = self.rt(t)
        if not subst or isinstance(t, str):
            return t
        k = t["k"]
        if k == "param":
            return subst.get(t["name"], t)
        if k in ("ref", "ptr"):
            return {"k": k, "mut": t["mut"], "to": self.subst_ty(t["to"], subst)}
        if k == "slice":
            return {"k": k, "of": self.subst_ty(t["of"], subst)}
        if k == "array":
            ln = t["len"]
            if ln is None and "len_param" in t:
                pass
            return {"k": k, "of": self.subst_ty(t["of"], subst), "len": ln}
        if k == "tuple":
            return {"k": k, "of": [self.subst_ty(x, subst) for x in t["of"]]}
        if k == "adt":
            args = []
            for a in t["args"]:
                if "t" in a:
                    args.append({"t": self.subst_ty(a["t"], subst)})
                else:
                    args.append(a)
            return {"k": k, "path": t["path"], "kind": t["kind"], "args": args}
        return t

    def adt_subst(self, t):
        """generic substitution for an adt type instance"""
        adt = self.F.adts.get(t["path"])
        if not adt:
            return {}
        names = adt["generics"]
        subst = {}
        for n, a in zip(names, t["args"]):
            if "t" in a:
                subst[n] = self.rt(a["t"])
            else:
                subst[n] = {"k": "constval", "c": a.get("c")}
        return subst

    def field_tys(self, t, variant):
        """list of field types of variant of adt type t (substituted)"""
        adt = self.F.adts.get(t["path"])
        if not adt:
            return None
        subst = self.adt_subst(t)
        v = adt["variants"][variant]
        return [self.subst_ty(f["ty"], subst) for f in v["fields"]]

    def ty_is_int(self, t):
        t = self.rt(t)
        return isinstance(t, str) and t in INT_TYPES

    def is_u8(self, t):
        t = self.rt(t)
        if t == "u8":
            return True
        # MaybeUninit<u8> is a byte for region purposes (initialisation is tracked separately)
        if isinstance(t, dict) and t.get("k") == "adt" and t["path"].endswith("MaybeUninit") and t["args"] and \
                "t" in t["args"][0] and self.rt(t["args"][0]["t"]) == "u8":
            return True
        return False

    def is_maybe_uninit_u8(self, t):
        t = self.rt(t)
        return isinstance(t, dict) and t.get("k") == "adt" and t["path"].endswith("MaybeUninit") and t["args"] and \
            "t" in t["args"][0] and self.rt(t["args"][0]["t"]) == "u8"

    def is_byte_slice_like(self, t):
        """[u8], [u8;N], str"""
        t = self.rt(t)
        if isinstance(t, dict):
            if t["k"] == "slice":
                return self.is_u8(t["of"])
            if t["k"] == "array":
                return self.is_u8(t["of"])
        return False

    # ------------------------------------------------------------------ materialise
    def new_int_atom(self, key, t):
        lo, hi = INT_TYPES[t]
        return reg_atom(("v", key), lo, hi)

    def materialize(self, st, t, key, assume_inv=True):
        t = self.rt(t)
        if t is None:
            return VOpaque(None, key)
        if isinstance(t, str):
            if t in INT_TYPES:
                return VInt(Lin.atom(self.new_int_atom(key, t)))
            if t == "bool":
                a = reg_atom(("v", key), 0, 1)
                return VBool(("ge", Lin.atom(a) - 1))
            if t == "()":
                return VTuple(())
            return VOpaque(t, key)
        k = t["k"]
        if k == "ref" or k == "ptr":
            to = self.rt(t["to"])
            if isinstance(to, dict) and to["k"] == "slice" and self.is_u8(to["of"]):
                if k == "ptr":
                    return VOpaque(t, key)
                if not t["mut"] and len(key) > 2 and key[0] == "ret":
                    al = st.notes.get("alias")
                    if al and key[:2] in al:
                        parent, sm = al[key[:2]]
                        flags = sm.get(key[2:])
                        if flags is not None and flags != "foreign":
                            o = Lin.atom(reg_atom(("v", ("aoff",) + key), 0, I64MAX))
                            l = Lin.atom(reg_atom(("v", ("alen",) + key), 0, I64MAX))
                            if flags[0]:
                                o = Lin.const(0)
                            elif len(flags) > 2 and flags[2] is not None:
                                o = Lin.const(flags[2])
                                st.add_ge0(parent.len - o)
                            if flags[1]:
                                l = parent.len - o
                                st.add_ge0(l)
                            else:
                                st.add_ge0(parent.len - o - l)
                            # tie to the length atom that type invariants of the enclosing struct talk about
                            la = Lin.atom(reg_atom(("len", ("s", key)), 0, I64MAX))
                            st.add_ge0(la - l)
                            st.add_ge0(l - la)
                            return VRegion(parent.origin, parent.off + o, l, False)
                origin = ("s", key)
                ln = reg_atom(("len", origin), 0, I64MAX)
                return VRegion(origin, Lin.const(0), Lin.atom(ln), t["mut"])
            if isinstance(to, dict) and to["k"] == "array" and self.is_u8(to["of"]) and to["len"] is not None \
                    and k == "ref":
                origin = ("s", key)
                return VRegion(origin, Lin.const(0), Lin.const(to["len"]), t["mut"])
            if k == "ptr":
                if self.is_u8(to):
                    return VPtr(("p", key), Lin.const(0), None, None, t["mut"])
                return VOpaque(t, key)
            if self.is_u8(to):
                origin = ("s", key)
                return VByteRef(origin, Lin.const(0), t["mut"])
            if to == "str" or (isinstance(to, dict) and to["k"] in ("dyn", "param", "slice", "alias", "other")):
                return VOpaque(t, key)
            # reference to a sized value: allocate heap object
            oid = ("h", key)
            st.heap[oid] = self.materialize(st, to, key + ("*",), assume_inv)
            return VRef(0, oid, (), t["mut"])
        if k == "tuple":
            return VTuple([self.materialize(st, x, key + (i,), assume_inv) for i, x in enumerate(t["of"])])
        if k == "array":
            n = t["len"]
            if n is not None and self.is_maybe_uninit_u8(t["of"]):
                ia = reg_atom(("initlen", key), 0, n)
                return VArray(None, n, key, self.rt(t["of"]), init=Lin.atom(ia))
            if n is not None and n <= 64:
                return VArray(tuple(self.materialize(st, t["of"], key + (i,), assume_inv) for i in range(n)), n,
                              key, self.rt(t["of"]))
            return VArray(None, n, key, self.rt(t["of"]))
        if k == "adt":
            return self.materialize_adt(st, t, key, assume_inv)
        return VOpaque(t, key)

    def materialize_adt(self, st, t, key, assume_inv=True):
        path = t["path"]
        if path.startswith("arrayvec::ArrayVec") or path == "arrayvec::arrayvec::ArrayVec":
            cap = None
            for a in t["args"]:
                if "c" in a:
                    cap = a["c"]
            capl = Lin.const(cap) if cap is not None else Lin.atom(reg_atom(("cap", key), 0, I64MAX))
            ln = reg_atom(("veclen", key), 0, cap if cap is not None else I64MAX)
            ety = None
            for a in t["args"]:
                if "t" in a:
                    ety = self.rt(a["t"])
                    break
            return VVec("arrayvec", Lin.atom(ln), capl, key, ety)
        if path == "alloc::vec::Vec":
            ln = reg_atom(("veclen", key), 0, I64MAX)
            cp = reg_atom(("cap", key), 0, I64MAX)
            st.add_ge0(Lin.atom(cp) - Lin.atom(ln))
            ety = None
            for a in t["args"]:
                if "t" in a:
                    ety = self.rt(a["t"])
                    break
            return VVec("vec", Lin.atom(ln), Lin.atom(cp), key, ety)
        if path == "core::mem::MaybeUninit" or path == "core::mem::maybe_uninit::MaybeUninit":
            return VOpaque(t, key)
        adt = self.F.adts.get(path)
        if adt is None:
            return VOpaque(t, key)
        if adt["kind"] == "union":
            return VOpaque(t, key)
        if adt["kind"] == "enum":
            if len(adt["variants"]) == 0:
                return VOpaque(t, key)
            return VAdt(path, None, None, key, t)
        # struct
        if not adt["local"] and path not in STRUCTURAL_FOREIGN:
            return VOpaque(t, key)
        ftys = self.field_tys(t, 0)
        fields = tuple(self.materialize(st, ft, key + (i,), assume_inv) for i, ft in enumerate(ftys))
        v = VAdt(path, 0, fields, key, t)
        if assume_inv:
            nm = self.inv_name(path, t)
            if nm is not None and nm in self.inv:
                self.assume_invariant(st, nm, key)
        return v

    def typestate_structs(self):
        """structs carrying a PhantomData<Param> marker: their invariants are kept per concrete instantiation"""
        r = getattr(self.F, "_typestate", None)
        if r is None:
            r = typestate_structs(self.F)
            self.F._typestate = r
        return r

    def ty_has_param(self, t, depth=0):
        t = self.rt(t)
        if isinstance(t, str) or depth > 6:
            return False
        k = t["k"]
        if k in ("param", "alias", "other", "dyn"):
            return True
        if k == "adt":
            return any("t" in a and self.ty_has_param(a["t"], depth + 1) for a in t["args"])
        if k in ("ref", "ptr"):
            return self.ty_has_param(t["to"], depth + 1)
        if k in ("slice", "array"):
            return self.ty_has_param(t["of"], depth + 1)
        if k == "tuple":
            return any(self.ty_has_param(x, depth + 1) for x in t["of"])
        return False

    def inv_name(self, path, t):
        """name of the invariant of struct `path` at type t (None: unknown instantiation of a typestate struct)"""
        if path not in self.typestate_structs():
            return path
        if not isinstance(t, dict) or t.get("k") != "adt":
            return None
        args = []
        for a in t["args"]:
            if "t" in a:
                if self.ty_has_param(a["t"]):
                    return None
                args.append(self.tstr(a["t"]))
        return "%s<%s>" % (path, ",".join(args))

    def assume_invariant(self, st, path, key):
        from .inv import instantiate_inv
        self.inv_used.add(path)
        disj = instantiate_inv(self.inv[path], key)
        if not disj:
            if self.inv[path].get("bottom"):
                raise Infeasible()
            return
        if len(disj) == 1:
            for l in disj[0]:
                st.add_ge0(l)
        else:
            st.disj.append(disj)

    def variant_fields(self, st, v, variant):
        """materialise fields of variant for a lazy enum value"""
        t = v.ty
        if t is None:
            return None
        ftys = self.field_tys(t, variant)
        if ftys is None:
            return None
        return tuple(self.materialize(st, ft, v.key + (("V", variant), i)) for i, ft in enumerate(ftys))

    def discr_atom(self, v):
        adt = self.F.adts.get(v.path)
        ds = [x["discr"] for x in adt["variants"]]
        return reg_atom(("discr", v.key), min(ds), max(ds))

    def discr_of_variant(self, path, variant):
        adt = self.F.adts.get(path)
        if adt is None:
            return variant
        d = adt["variants"][variant]["discr"]
        return d if d is not None else variant

    def variant_of_discr(self, path, d):
        adt = self.F.adts.get(path)
        for i, v in enumerate(adt["variants"]):
            if v["discr"] == d:
                return i
        return None

    # ------------------------------------------------------------------ obligations
    def ctx(self, st):
        return tuple((f.body["path"], f.callsite) for f in st.frames[1:])

    def oblige(self, st, kind, desc, proved, site, sp, detail="", trivial=False, expn=None):
        fr = st.frames[-1]
        self.sink.add(Oblig(kind, fr.body["path"], site, desc, bool(proved), self.ctx(st), sp, detail, trivial, expn))

    def prove_range(self, st, kind, what, off, width, lo, hi, site, sp):
        """obligation: lo <= off and off+width <= hi  (all Lin; lo/hi None = unknown extent)"""
        if lo is None or hi is None:
            self.oblige(st, kind, what, False, site, sp, "pointer with unknown extent")
            return False
        g1 = off - lo
        g2 = hi - off - width
        p1 = st.entails(g1)
        p2 = st.entails(g2)
        triv = g1.is_const() and g2.is_const()
        detail = ""
        if not (p1 and p2):
            detail = "need %s >= 0 and %s >= 0; facts: %s" % (show_lin(g1), show_lin(g2), self.show_facts(st, g2))
        self.oblige(st, kind, what, p1 and p2, site, sp, detail, triv)
        return p1 and p2

    def show_facts(self, st, goal, limit=12):
        from .lin import relevant
        cons = [(f.t, f.c) for f in st.facts]
        sel, _ = relevant(cons, set(goal.atoms()))
        out = []
        for t, c in sel[:limit]:
            out.append(show_lin(Lin(dict(t), c)) + ">=0")
        if st.disj:
            out.append("(+%d disjunctions)" % len(st.disj))
        return "; ".join(out)

    # ------------------------------------------------------------------ places
    def frame_by_id(self, st, fid):
        for f in st.frames:
            if f.fid == fid:
                return f
        return None

    def get_root(self, st, fid, local):
        if fid == 0:
            return st.heap.get(local)
        f = self.frame_by_id(st, fid)
        if f is None:
            return None
        return f.locals.get(local)

    def set_root(self, st, fid, local, v):
        if fid == 0:
            st.heap[local] = v
        else:
            f = self.frame_by_id(st, fid)
            if f is not None:
                f.locals[local] = v

    def resolve_place(self, st, fr, place):
        """-> ('place', fid, local, projs) | ('region', VRegion) | ('byte', origin, off, mut) | ('val', value)
        Walk MIR projections resolving derefs of references."""
        fid, local, projs = fr.fid, place["l"], ()
        cur = ("place", fid, local, ())
        for p in place.get("p", ()):
            cur = self.project(st, fr, cur, p)
        return cur

    def project(self, st, fr, cur, p):
        kind = cur[0]
        if p == "deref":
            v = self.load(st, cur)
            if isinstance(v, VRef):
                return ("place", v.fid, v.local, v.projs)
            if isinstance(v, VRegion):
                return ("region", v)
            if isinstance(v, VByteRef):
                return ("byte", v.origin, v.off, v.mut, None)
            if isinstance(v, VPtr):
                return ("ptrbyte", v)
            return ("val", VOpaque(None, ("deref", fresh_id())))
        if kind == "place":
            if isinstance(p, dict):
                if "f" in p:
                    return ("place", cur[1], cur[2], cur[3] + (("f", p["f"], p.get("ty")),))
                if "dc" in p:
                    return ("place", cur[1], cur[2], cur[3] + (("dc", p["dc"]),))
                if "idx" in p:
                    iv = fr.locals.get(p["idx"])
                    return ("place", cur[1], cur[2], cur[3] + (("idx", iv),))
                if "cidx" in p:
                    return ("place", cur[1], cur[2], cur[3] + (("cidx", p["cidx"], p["from_end"]),))
            return ("val", VOpaque(None, ("proj", fresh_id())))
        if kind == "region":
            r = cur[1]
            if isinstance(p, dict):
                if "idx" in p:
                    iv = fr.locals.get(p["idx"])
                    if isinstance(iv, VInt):
                        return ("byte", r.origin, r.off + iv.lin, r.mut, (iv.lin, r.len))
                if "cidx" in p and not p["from_end"]:
                    return ("byte", r.origin, r.off + p["cidx"], r.mut, (Lin.const(p["cidx"]), r.len))
                if "cidx" in p and p["from_end"]:
                    return ("byte", r.origin, r.off + r.len - p["cidx"], r.mut, None)
                if "sub" in p:
                    a, b = p["sub"]
                    if p["from_end"]:
                        return ("region", VRegion(r.origin, r.off + a, r.len - a - b, r.mut))
                    return ("region", VRegion(r.origin, r.off + a, Lin.const(b - a), r.mut))
            return ("val", VOpaque(None, ("proj", fresh_id())))
        if kind == "val":
            v = cur[1]
            return ("val", self.project_value(st, v, p, fr))
        return ("val", VOpaque(None, ("proj", fresh_id())))

    def project_value(self, st, v, p, fr=None):
        if isinstance(p, dict) and "f" in p:
            i = p["f"]
            if isinstance(v, (VAdt,)) and v.fields is not None and i < len(v.fields):
                return v.fields[i]
            if isinstance(v, (VTuple, VClosure)) and i < len(v.fields):
                return v.fields[i]
            if isinstance(v, VOpaque):
                key = (v.key, "f", i) if v.key is not None else ("of", fresh_id())
                if p.get("ty") is not None:
                    return self.materialize(st, p["ty"], key)
                return VOpaque(None, key)
            if isinstance(v, VVec):
                return VOpaque(None, ("vf", fresh_id()))
            return VOpaque(None, ("f", fresh_id()))
        if isinstance(p, dict) and "dc" in p:
            if isinstance(v, VAdt):
                if v.variant is None:
                    fs = self.variant_fields(st, v, p["dc"])
                    return VAdt(v.path, p["dc"], fs, v.key, v.ty)
                return v
            return v
        if isinstance(p, dict) and "idx" in p:
            iv = fr.locals.get(p["idx"]) if fr else None
            return self.index_value(st, v, iv)
        if isinstance(p, dict) and "cidx" in p and isinstance(v, VArray) and v.init is not None and not p["from_end"]:
            return self.index_value(st, v, VInt(Lin.const(p["cidx"])))
        if isinstance(p, dict) and "cidx" in p:
            if isinstance(v, VArray) and v.elems is not None:
                i = p["cidx"] if not p["from_end"] else v.n - p["cidx"]
                if 0 <= i < len(v.elems):
                    return v.elems[i]
        return VOpaque(None, ("pv", fresh_id()))

    def index_value(self, st, v, iv):
        if isinstance(v, VArray) and v.init is not None:
            inner = UNINIT
            if isinstance(iv, VInt) and st.entails(iv.lin) and st.entails(v.init - iv.lin - 1):
                inner = VInt(Lin.atom(reg_atom(("v", ("mb", fresh_id())), 0, 255)))
            return VAdt("core::mem::MaybeUninit", 0, (inner,), None, None)
        if isinstance(v, VArray):
            if v.elems is not None and isinstance(iv, VInt) and iv.lin.is_const():
                i = iv.lin.c
                if 0 <= i < len(v.elems):
                    return v.elems[i]
            if v.ety is not None:
                return self.materialize(st, v.ety, ("ae", fresh_id()))
        return VOpaque(None, ("ix", fresh_id()))

    def load(self, st, cur):
        """value stored at resolved place"""
        kind = cur[0]
        if kind == "val":
            return cur[1]
        if kind == "region":
            return cur[1]
        if kind == "byte":
            return self.read_byte(st, cur[1], cur[2], cur[3])
        if kind == "ptrbyte":
            return ("PTRBYTE", cur[1])
        # place
        v = self.get_root(st, cur[1], cur[2])
        if v is None:
            return VOpaque(None, ("uninit", cur[1], cur[2]))
        for p in cur[3]:
            v = self.step_value(st, v, p)
        return v

    def step_value(self, st, v, p):
        tag = p[0]
        if tag == "f":
            return self.project_value(st, v, {"f": p[1], "ty": p[2]})
        if tag == "dc":
            return self.project_value(st, v, {"dc": p[1]})
        if tag == "idx":
            return self.index_value(st, v, p[1])
        if tag == "cidx":
            return self.project_value(st, v, {"cidx": p[1], "from_end": p[2]})
        return VOpaque(None, ("sv", fresh_id()))

    def record_construction(self, st, v):
        if self.root is not None and self.root.get("unsafe"):
            return
        if self.trusted_ctx and any(f.body["path"] in self.trusted_ctx for f in st.frames):
            return
        if self.rootset and any(f.body["path"] in self.rootset for f in st.frames[1:]):
            # the inlined function is analysed as a root itself (for all admissible inputs)
            return
        from .inv import extract_disjuncts
        tgt = self.inv_targets[v.path]
        nm = self.inv_name(v.path, v.ty)
        if nm is None:
            # construction at a generic / unknown instantiation of a typestate struct: every instantiation gives up
            self.inv_records.setdefault(v.path + "<*>", []).append([])
            return
        try:
            conjs = extract_disjuncts(self, st, v, drop_fields=tgt)
        except Infeasible:
            return
        self.inv_records.setdefault(nm, []).extend(conjs)
        if any(len(c) == 0 for c in conjs):
            self.sink.events.append(("inv_empty", v.path, st.frames[-1].body["path"], self.cur_sp,
                                     repr(v)[:300], "; ".join(show_lin(f) for f in st.facts[:12])))

    def store(self, st, cur, val):
        kind = cur[0]
        if kind == "place":
            root = self.get_root(st, cur[1], cur[2])
            nv = self.update_value(st, root, cur[3], val)
            self.set_root(st, cur[1], cur[2], nv)
            if self.inv_targets is not None and st.frames and isinstance(val, (VAdt, VTuple)) and \
                    cur[1] != st.frames[-1].fid:
                fr0 = st.frames[-1]
                key0 = (cur[1], cur[2], cur[3])
                if key0 not in fr0.dirty:
                    fr0.dirty = fr0.dirty + (key0,)
            if self.inv_targets is not None and cur[3]:
                # a write below a struct with an inferred invariant is a construction site of that struct
                projs = cur[3]
                v = nv
                for i, p in enumerate(projs):
                    if isinstance(v, VAdt) and v.variant == 0 and v.path in self.inv_targets and p[0] == "f":
                        # deferred: the invariant has to hold when the writing frame returns
                        if st.frames:
                            fr = st.frames[-1]
                            key = (cur[1], cur[2], projs[:i])
                            if key not in fr.dirty:
                                fr.dirty = fr.dirty + (key,)
                    v = self.step_value(st, v, p)
            return
        if kind == "byte":
            self.write_byte(st, cur[1], cur[2], val)
            return
        if kind == "region":
            # whole-slice assignment through deref: treat as content write
            r = cur[1]
            if isinstance(val, VArray) and val.elems is not None and r.len.is_const() and r.len.c == len(val.elems) \
                    and r.origin[0] == "place":
                for i, e in enumerate(val.elems):
                    self.write_byte(st, r.origin, r.off + i, e)
                return
            self.havoc_region(st, r)
            return
        # writes through unknown pointers: conservatively ignored for values we do not track;
        # memory-safety of raw pointer writes is an obligation at the deref site.

    def update_value(self, st, v, projs, val):
        if not projs:
            return val
        p = projs[0]
        tag = p[0]
        if tag == "f":
            i = p[1]
            if isinstance(v, VAdt) and v.fields is not None:
                fs = list(v.fields)
                fs[i] = self.update_value(st, fs[i], projs[1:], val)
                nk = None
                if self.rootset and self.inv_targets is not None and \
                        any(f.body["path"] in self.rootset for f in st.frames[1:]):
                    nk = ("rootborn",)
                return VAdt(v.path, v.variant, tuple(fs), nk, v.ty)
            if isinstance(v, VTuple):
                fs = list(v.fields)
                fs[i] = self.update_value(st, fs[i], projs[1:], val)
                return VTuple(fs)
            if isinstance(v, VClosure):
                fs = list(v.fields)
                fs[i] = self.update_value(st, fs[i], projs[1:], val)
                return VClosure(v.path, fs)
            if v is None or isinstance(v, VOpaque):
                return VOpaque(None, ("upd", fresh_id()))
            return VOpaque(None, ("upd", fresh_id()))
        if tag == "dc":
            if isinstance(v, VAdt):
                if v.variant is None:
                    fs = self.variant_fields(st, v, p[1])
                    v = VAdt(v.path, p[1], fs, v.key, v.ty)
                return self.update_value(st, v, projs[1:], val)
            return VOpaque(None, ("upd", fresh_id()))
        if tag in ("idx", "cidx"):
            if isinstance(v, VArray):
                iv = p[1]
                idx = None
                if tag == "cidx":
                    idx = p[1] if not p[2] else (v.n - p[1] if v.n is not None else None)
                elif isinstance(iv, VInt) and iv.lin.is_const():
                    idx = iv.lin.c
                if v.elems is not None and idx is not None and 0 <= idx < len(v.elems):
                    es = list(v.elems)
                    es[idx] = self.update_value(st, es[idx], projs[1:], val)
                    return VArray(tuple(es), v.n, v.key, v.ety)
                # unknown index: havoc all elements
                return VArray(None, v.n, ("ah", fresh_id()), v.ety)
            return VOpaque(None, ("upd", fresh_id()))
        return VOpaque(None, ("upd", fresh_id()))

    # ---- region content
    def read_byte(self, st, origin, off, mut=False):
        if origin[0] == "place":
            # region over a local array: read from the array value
            arr = self.load(st, ("place", origin[1], origin[2], origin[3]))
            if isinstance(arr, VArray) and arr.elems is not None and off.is_const() and 0 <= off.c < len(arr.elems):
                e = arr.elems[off.c]
                if isinstance(e, VInt):
                    return e
            if isinstance(arr, VVec) and arr.data is not None and off.is_const() and 0 <= off.c < len(arr.data):
                e = arr.data[off.c]
                if isinstance(e, VInt):
                    return e
            return VInt(Lin.atom(reg_atom(("v", ("mb", fresh_id())), 0, 255)))
        if mut or origin[0] == "m":
            return VInt(Lin.atom(reg_atom(("v", ("mb", fresh_id())), 0, 255)))
        a = reg_atom(("byte", origin, off.key()), 0, 255)
        return VInt(Lin.atom(a))

    def write_byte(self, st, origin, off, val):
        if origin[0] == "place":
            cur = ("place", origin[1], origin[2], origin[3])
            arr = self.load(st, cur)
            if isinstance(arr, VArray):
                if arr.elems is not None and off.is_const() and 0 <= off.c < len(arr.elems):
                    es = list(arr.elems)
                    es[off.c] = val
                    self.store(st, cur, VArray(tuple(es), arr.n, arr.key, arr.ety))
                else:
                    self.store(st, cur, VArray(None, arr.n, ("ah", fresh_id()), arr.ety))
            elif isinstance(arr, VVec) and arr.data is not None:
                if off.is_const() and 0 <= off.c < len(arr.data):
                    d = list(arr.data)
                    d[off.c] = val
                    self.store(st, cur, arr.with_data(tuple(d)))
                else:
                    self.store(st, cur, arr.with_data(None))

    def havoc_region(self, st, r, lo=None, n=None):
        """content of region r (or its sub-range [lo,lo+n) relative to region start) becomes unknown"""
        if r.origin[0] == "place":
            cur = ("place", r.origin[1], r.origin[2], r.origin[3])
            arr = self.load(st, cur)
            if isinstance(arr, VArray) and arr.init is not None:
                a = r.off + (lo if lo is not None else Lin.const(0))
                ln = n if n is not None else r.len
                # contiguous extension of the initialised prefix: a <= init  =>  init' = max(init, a+ln)
                if st.entails(arr.init - a):
                    if st.entails(a + ln - arr.init):
                        ni = a + ln
                    elif st.entails(arr.init - a - ln):
                        ni = arr.init
                    else:
                        m = Lin.atom(reg_atom(("v", ("initmax", fresh_id())), 0, arr.n if arr.n is not None else I64MAX))
                        st.add_ge0(m - arr.init)
                        st.add_ge0(m - a - ln)
                        ni = m
                    self.store(st, cur, VArray(None, arr.n, arr.key, arr.ety, init=ni))
                return
            if isinstance(arr, VArray):
                if arr.elems is not None:
                    a = r.off + (lo if lo is not None else Lin.const(0))
                    ln = n if n is not None else r.len
                    if a.is_const():
                        es = list(arr.elems)
                        hi_i = min(a.c + ln.c, len(es)) if ln.is_const() else len(es)
                        for i in range(a.c, hi_i):
                            if i >= 0:
                                es[i] = VInt(Lin.atom(reg_atom(("v", ("mb", fresh_id())), 0, 255)))
                        self.store(st, cur, VArray(tuple(es), arr.n, arr.key, arr.ety))
                        return
                self.store(st, cur, VArray(None, arr.n, ("ah", fresh_id()), arr.ety))
            elif isinstance(arr, VVec) and arr.data is not None:
                self.store(st, cur, arr.with_data(None))

    def region_bytes(self, st, r, n):
        """list of n byte values at the start of region r"""
        return [self.read_byte(st, r.origin, r.off + i, r.mut) for i in range(n)]

    # ------------------------------------------------------------------ operands / rvalues
    def eval_place(self, st, fr, place):
        cur = self.resolve_place(st, fr, place)
        v = self.load(st, cur)
        if isinstance(v, tuple) and v and v[0] == "PTRBYTE":
            return self.deref_ptr_read(st, fr, v[1], place)
        if isinstance(v, VRegion) and place.get("ty") is not None and v.len.is_const() and v.len.c <= 64:
            # reading a `[u8; N]` *value* through a reference to it copies the bytes
            pt = self.rt(place["ty"])
            if isinstance(pt, dict) and pt["k"] == "array" and pt["len"] == v.len.c and self.is_u8(pt["of"]):
                return VArray(tuple(self.region_bytes(st, v, v.len.c)), v.len.c, None, "u8")
        return v

    def deref_ptr_read(self, st, fr, ptr, place):
        site = self.cur_site
        sp = self.cur_sp
        ty = self.rt(place.get("ty")) if place.get("ty") is not None else "u8"
        width = 1
        if isinstance(ty, dict) and ty["k"] == "array" and ty["len"] is not None:
            width = ty["len"]
        self.prove_range(st, "read", "deref raw pointer (%d byte)" % width, ptr.off, Lin.const(width), ptr.lo,
                         ptr.hi, site, sp)
        if width == 1 and not isinstance(ty, dict):
            return self.read_byte(st, ptr.origin, ptr.off, ptr.mut)
        return VArray(tuple(self.read_byte(st, ptr.origin, ptr.off + i, ptr.mut) for i in range(width)), width)

    def eval_promoted(self, st, pbody):
        """evaluate a promoted constant body (straight-line) and return its value; locals it refers to are
        moved to the heap so that references stay valid"""
        locs = {}
        fid = ("prom", fresh_id())

        class F2:
            pass
        fr = Frame(fid, {"path": "<promoted>", "locals": pbody["locals"], "blocks": pbody["blocks"], "arg_count": 0},
                   locs, 0, None, len(st.frames), None)
        st.frames.append(fr)
        try:
            bi = 0
            for _ in range(64):
                blk = pbody["blocks"][bi]
                for s_ in blk["stmts"]:
                    self.exec_stmt(st, fr, s_)
                t = blk["term"]
                if t["t"] == "goto":
                    bi = t["target"]
                elif t["t"] == "assert":
                    bi = t["target"]
                else:
                    break
        finally:
            st.frames.pop()
        rv = locs.get(0)

        def fix(v, d=0):
            if isinstance(v, VRef) and v.fid == fid:
                tgt = locs.get(v.local)
                for p_ in v.projs:
                    tgt = self.step_value(st, tgt, p_)
                oid = ("promobj", fresh_id())
                st.heap[oid] = fix(tgt, d + 1) if d < 4 else tgt
                return VRef(0, oid, (), False)
            if isinstance(v, VRegion) and v.origin and v.origin[0] == "place" and v.origin[1] == fid:
                arr = locs.get(v.origin[2])
                oid = ("promobj", fresh_id())
                st.heap[oid] = arr
                return VRegion(("place", 0, oid, v.origin[3]), v.off, v.len, False)
            return v
        return fix(rv)

    def const_value(self, st, k):
        t = self.rt(k["ty"])
        if "promoted" in k and st.frames:
            proms = st.frames[-1].body.get("promoted") or []
            if k["promoted"] < len(proms):
                try:
                    v = self.eval_promoted(st, proms[k["promoted"]])
                    if v is not None and not isinstance(v, VOpaque):
                        return v
                except Exception:
                    pass
        if "int" in k:
            return VInt(Lin.const(k["int"]))
        if "bool" in k:
            return VBool(("c", k["bool"]))
        if "fn" in k:
            return VFn(k["fn"], k.get("args"))
        if "zst" in k:
            if isinstance(t, dict) and t["k"] == "closure":
                return VClosure(t["path"], ())
            return VTuple(())
        if "fields" in k:
            return self.const_tree(st, k, t)
        if "bytes" in k:
            bs = k["bytes"]
            origin = ("const", tuple(bs[:64]), len(bs))
            for i, b in enumerate(bs[:256]):
                pass
            return VRegion(origin, Lin.const(0), Lin.const(len(bs)), False)
        if isinstance(t, dict) and t.get("k") == "ref" and not t.get("mut"):
            to = self.rt(t["to"])
            if isinstance(to, dict) and to["k"] == "array" and self.is_u8(to["of"]) and to["len"] is not None:
                if to["len"] == 0:
                    return VRegion(("empty",), Lin.const(0), Lin.const(0), False)
                return VRegion(("constref", fresh_id()), Lin.const(0), Lin.const(to["len"]), False)
        return VOpaque(t, ("const", fresh_id()))

    def const_tree(self, st, k, t):
        t = self.rt(t)
        if "int" in k:
            return VInt(Lin.const(k["int"]))
        if "bool" in k:
            return VBool(("c", k["bool"]))
        if "fields" not in k:
            return VOpaque(t, ("const", fresh_id()))
        if isinstance(t, dict) and t["k"] == "adt":
            variant = k["variant"] if k["variant"] is not None else 0
            ftys = self.field_tys(t, variant)
            if ftys is None or len(ftys) != len(k["fields"]):
                return VOpaque(t, ("const", fresh_id()))
            fs = tuple(self.const_tree(st, f, ft) for f, ft in zip(k["fields"], ftys))
            return VAdt(t["path"], variant, fs, None, t)
        if isinstance(t, dict) and t["k"] == "tuple":
            return VTuple([self.const_tree(st, f, ft) for f, ft in zip(k["fields"], t["of"])])
        if isinstance(t, dict) and t["k"] == "array":
            return VArray(tuple(self.const_tree(st, f, t["of"]) for f in k["fields"]), len(k["fields"]), None,
                          self.rt(t["of"]))
        if t == "()":
            return VTuple(())
        return VOpaque(t, ("const", fresh_id()))

    def eval_operand(self, st, fr, op):
        if "c" in op:
            return self.eval_place(st, fr, op["c"])
        if "m" in op:
            return self.eval_place(st, fr, op["m"])
        if "k" in op:
            return self.const_value(st, op["k"])
        if "rtc" in op:
            return VBool(("c", False))
        return VOpaque(None, ("op", fresh_id()))

    def as_lin(self, v):
        if isinstance(v, VInt):
            return v.lin
        return None

    def int_binop(self, st, op, a, b, ty):
        """a, b Lin; ty result int type name; returns Lin"""
        lo_t, hi_t = INT_TYPES.get(ty, (None, None))
        bits = INT_BITS.get(ty, 64)
        if op in ("Add", "AddUnchecked", "Sub", "SubUnchecked", "Mul", "MulUnchecked"):
            if op.startswith("Add"):
                r = a + b
            elif op.startswith("Sub"):
                r = a - b
            else:
                r = self.mul(a, b)
            if op.endswith("Unchecked"):
                return r
            # wrapping semantics unless in range
            if lo_t is not None and st.entails(r - lo_t) and st.entails(Lin.const(hi_t) - r):
                return r
            return Lin.atom(reg_atom(("wrap", r.key(), ty), lo_t, hi_t))
        if op == "BitAnd":
            return self.bitand(a, b, ty, st)
        if op == "BitOr":
            ma, mb = mask_of_lin(a), mask_of_lin(b)
            if ma is not None and mb is not None and (ma & mb) == 0:
                return a + b
            if st is not None and self.opts.get("bitfields", False):
                ra, rb = self.refined_mask(st, a, ma), self.refined_mask(st, b, mb)
                if ra is not None and rb is not None and (ra & rb) == 0:
                    return a + b
                from .bits import fields_of
                if fields_of(st, a + b) is not None and not (a.is_const() or b.is_const()) and \
                        not (set(a.t) & set(b.t)):
                    return a + b
                # one operand below 2^k, the other a non-negative multiple of 2^k
                for x, y, my in ((a, b, rb), (b, a, ra)):
                    if my is None:
                        continue
                    k = my.bit_length()
                    p2 = 1 << k
                    if all(v % p2 == 0 for v in x.t.values()) and x.c % p2 == 0:
                        xlo, _ = static_bounds(x)
                        if (xlo is not None and xlo >= 0) or st.entails(x):
                            return a + b
            if a.is_const() and b.is_const():
                return Lin.const(a.c | b.c)
            alo, ahi = static_bounds(a)
            blo, bhi = static_bounds(b)
            hi = None
            if ahi is not None and bhi is not None and alo is not None and blo is not None and alo >= 0 and blo >= 0:
                hi = (1 << max(ahi.bit_length(), bhi.bit_length())) - 1
            ks = sorted([a.key(), b.key()], key=repr)
            m = (ma | mb) if (ma is not None and mb is not None) else None
            return Lin.atom(reg_atom(("or", ks[0], ks[1]), 0 if lo_t == 0 else lo_t, hi if hi is not None else hi_t, m))
        if op == "BitXor":
            if a.is_const() and b.is_const():
                return Lin.const(a.c ^ b.c)
            ma, mb = mask_of_lin(a), mask_of_lin(b)
            ks = sorted([a.key(), b.key()], key=repr)
            m = (ma | mb) if (ma is not None and mb is not None) else None
            hi = m if m is not None else hi_t
            return Lin.atom(reg_atom(("xor", ks[0], ks[1]), 0 if lo_t == 0 else lo_t, hi, m))
        if op in ("Shl", "ShlUnchecked"):
            if b.is_const():
                k = b.c
                if a.is_const():
                    return Lin.const((a.c << k) & ((1 << bits) - 1))
                alo, ahi = static_bounds(a)
                if alo is not None and alo >= 0 and ahi is not None and (ahi << k) <= hi_t:
                    return a.scale(1 << k)
                if st is not None and hi_t is not None and st.entails(a) and \
                        st.entails(Lin.const(hi_t) - a.scale(1 << k)):
                    return a.scale(1 << k)
                if st is not None and self.opts.get("bitfields", False) and hi_t is not None:
                    from .bits import and_fields
                    r = and_fields(self, st, a.scale(1 << k), (1 << bits) - 1, ty)
                    if r is not None:
                        return r
                ma = mask_of_lin(a)
                m = ((ma << k) & ((1 << bits) - 1)) if ma is not None else None
                return Lin.atom(reg_atom(("shl", a.key(), k, bits), 0, m if m is not None else hi_t, m))
            return Lin.atom(reg_atom(("shlv", a.key(), b.key(), bits), lo_t, hi_t))
        if op in ("Shr", "ShrUnchecked"):
            if b.is_const():
                k = b.c
                if a.is_const():
                    return Lin.const(a.c >> k)
                alo, ahi = static_bounds(a)
                if (alo is None or alo < 0) and ahi is not None and st is not None and \
                        self.opts.get("bitfields", False) and st.entails(a):
                    alo = 0
                if alo is not None and alo >= 0 and ahi is not None:
                    # exact division when all coefficients are multiples of 2^k and no carry issues
                    if all(v % (1 << k) == 0 for v in a.t.values()) and a.c % (1 << k) == 0 and all(
                            v > 0 for v in a.t.values()):
                        return Lin({x: v >> k for x, v in a.t.items()}, a.c >> k)
                    if st is not None and self.opts.get("bitfields", False):
                        from .bits import shr_fields, shr_split
                        r = shr_fields(self, st, a, k, ty)
                        if r is None and (len(a.t) > 1 or a.c):
                            r = shr_split(self, st, a, k, ty)
                        if r is not None:
                            return r
                    sa = a.single_atom() if self.opts.get("bitfields", False) else None
                    if sa is not None and isinstance(sa, tuple) and sa[0] == "shr" and isinstance(sa[2], int):
                        # (x >> k1) >> k = x >> (k1 + k)
                        return self.int_binop(st, "Shr", lin_from_key(sa[1]), Lin.const(sa[2] + k), ty)
                    ma = mask_of_lin(a)
                    m = (ma >> k) if ma is not None else None
                    at = reg_atom(("shr", a.key(), k), alo >> k, ahi >> k, m)
                    return Lin.atom(at)
            return Lin.atom(reg_atom(("shrv", a.key(), b.key()), lo_t, hi_t))
        if op == "Div":
            if b.is_const() and b.c > 0:
                if a.is_const():
                    return Lin.const(a.c // b.c) if a.c >= 0 else Lin.const(-((-a.c) // b.c))
                alo, ahi = static_bounds(a)
                if (alo is None or alo < 0) and st is not None and st.entails(a):
                    alo = 0
                if alo is not None and alo >= 0:
                    if all(v % b.c == 0 for v in a.t.values()) and a.c % b.c == 0 and all(v > 0 for v in a.t.values()):
                        return Lin({x: v // b.c for x, v in a.t.items()}, a.c // b.c)
                    at = reg_atom(("div", a.key(), b.c), alo // b.c, None if ahi is None else ahi // b.c)
                    if st is not None:
                        st.add_ge0(a - Lin.atom(at).scale(b.c))
                        st.add_ge0(Lin.atom(at).scale(b.c) + (b.c - 1) - a)
                    return Lin.atom(at)
            return Lin.atom(reg_atom(("divv", a.key(), b.key()), lo_t, hi_t))
        if op == "Rem":
            if b.is_const() and b.c > 0:
                if a.is_const() and a.c >= 0:
                    return Lin.const(a.c % b.c)
                alo, ahi = static_bounds(a)
                if (alo is None or alo < 0) and st is not None and st.entails(a):
                    alo = 0
                if alo is not None and alo >= 0:
                    if all(v % b.c == 0 for v in a.t.values()) and all(v > 0 for v in a.t.values()):
                        return Lin.const(a.c % b.c)
                    if ahi is not None and ahi < b.c:
                        return a
                    at = reg_atom(("rem", a.key(), b.c), 0, b.c - 1)
                    if st is not None:
                        # definitional link (also when the static lower bound of `a` is negative)
                        q = reg_atom(("div", a.key(), b.c), 0, None if ahi is None else max(ahi, 0) // b.c)
                        e = a - Lin.atom(at) - Lin.atom(q).scale(b.c)
                        st.add_ge0(e)
                        st.add_ge0(-e)
                    return Lin.atom(at)
            return Lin.atom(reg_atom(("remv", a.key(), b.key()), lo_t, hi_t))
        return Lin.atom(reg_atom(("binop", op, a.key(), b.key()), lo_t, hi_t))

    def mul(self, a, b):
        if a.is_const():
            return b.scale(a.c)
        if b.is_const():
            return a.scale(b.c)
        alo, ahi = static_bounds(a)
        blo, bhi = static_bounds(b)
        lo = hi = None
        if None not in (alo, ahi, blo, bhi):
            c = [alo * blo, alo * bhi, ahi * blo, ahi * bhi]
            lo, hi = min(c), max(c)
        ks = sorted([a.key(), b.key()], key=repr)
        return Lin.atom(reg_atom(("mul", ks[0], ks[1]), lo, hi))

    def bitand(self, a, b, ty, st=None):
        lo_t, hi_t = INT_TYPES.get(ty, (None, None))
        if a.is_const() and b.is_const():
            return Lin.const(a.c & b.c)
        if a.is_const():
            a, b = b, a
        if b.is_const():
            c = b.c
            if c == 0:
                return Lin.const(0)
            ma = mask_of_lin(a)
            if ma is not None and (ma & ~c) == 0:
                return a
            if st is not None and self.opts.get("bitfields", False):
                if len(a.t) == 1 and a.c == 0:
                    rm = self.refined_mask(st, a, ma)
                    if rm is not None and (rm & ~c) == 0:
                        return a
                from .bits import and_fields, and_split
                r = and_fields(self, st, a, c, ty)
                if r is None and (len(a.t) > 1 or a.c):
                    r = and_split(self, st, a, c, ty)
                if r is not None:
                    return r
            alo, ahi = static_bounds(a)
            if st is not None and self.opts.get("bitfields", False) and alo is not None and alo >= 0 and c > 0 and \
                    len(a.t) == 1 and a.c == 0:
                # masks are normalised to low masks of shifted values:  x & (m << k) = ((x >> k) & m) << k, one
                # term per run of the mask (definitional facts exist for low masks only)
                runs = []
                cc, pos = c, 0
                while cc:
                    if cc & 1:
                        w = 0
                        while cc & 1:
                            w += 1
                            cc >>= 1
                        runs.append((pos, w))
                        pos += w
                    else:
                        cc >>= 1
                        pos += 1
                if (len(runs) > 1 or runs[0][0] > 0) and len(runs) <= 4:
                    r = Lin.const(0)
                    for (k, w) in runs:
                        q = self.int_binop(st, "Shr", a, Lin.const(k), ty) if k else a
                        self.add_def_facts(st, q)
                        part = self.bitand(q, Lin.const((1 << w) - 1), ty, st)
                        self.add_def_facts(st, part)
                        r = r + part.scale(1 << k)
                    return r
            if alo is not None and alo >= 0 and ahi is not None and c > 0:
                # mask keeping all bits from `lo` upwards (of the possible bits of a):  a & c = 2^lo * (a >> lo)
                lo_bit = (c & -c).bit_length() - 1
                full = (1 << ahi.bit_length()) - 1
                if lo_bit > 0 and (c & full) == (full & ~((1 << lo_bit) - 1)):
                    q = self.int_binop(None, "Shr", a, Lin.const(lo_bit), ty)
                    return q.scale(1 << lo_bit)
            if alo is not None and alo >= 0:
                # low mask = remainder
                m = (ma & c) if ma is not None else c
                hi = min(ahi, m) if ahi is not None else m
                return Lin.atom(reg_atom(("and", a.key(), c), 0, hi, m))
            return Lin.atom(reg_atom(("and", a.key(), c), 0, c, c))
        ma, mb = mask_of_lin(a), mask_of_lin(b)
        m = (ma & mb) if (ma is not None and mb is not None) else (ma if ma is not None else mb)
        ks = sorted([a.key(), b.key()], key=repr)
        _, ahi = static_bounds(a)
        _, bhi = static_bounds(b)
        his = [x for x in (ahi, bhi, m) if x is not None]
        return Lin.atom(reg_atom(("and", ks[0], ks[1]), 0, min(his) if his else hi_t, m))

    def place_type(self, fr, place):
        if place.get("ty") is not None:
            return self.rt(place["ty"])
        return self.rt(fr.body["locals"][place["l"]][0])

    def operand_type(self, fr, op):
        if "c" in op:
            return self.place_type(fr, op["c"])
        if "m" in op:
            return self.place_type(fr, op["m"])
        if "k" in op:
            return self.rt(op["k"]["ty"])
        return None

    def eval_rvalue(self, st, fr, rv, dest_ty):
        k = rv["rv"]
        if k == "use":
            return self.eval_operand(st, fr, rv["op"])
        if k == "ref" or k == "rawptr":
            return self.make_ref(st, fr, rv["place"], rv.get("mut", False), raw=(k == "rawptr"))
        if k == "bin":
            return self.eval_bin(st, fr, rv, dest_ty)
        if k == "un":
            a = self.eval_operand(st, fr, rv["a"])
            op = rv["op"]
            if op == "Not":
                if isinstance(a, VBool):
                    return VBool(f_not(a.f))
                if isinstance(a, VInt) and isinstance(dest_ty, str) and dest_ty in INT_TYPES:
                    lo, hi = INT_TYPES[dest_ty]
                    if lo == 0:
                        return VInt(Lin.const(hi) - a.lin)
                return self.materialize(st, dest_ty, ("not", fresh_id()))
            if op == "Neg":
                if isinstance(a, VInt):
                    return VInt(-a.lin)
            if op == "PtrMetadata":
                if isinstance(a, VRegion):
                    return VInt(a.len)
                if isinstance(a, VVec):
                    return VInt(a.len)
                if hasattr(a, "ety") and hasattr(a, "len") and isinstance(a.len, Lin):
                    return VInt(a.len)
            return self.materialize(st, dest_ty, ("un", fresh_id()))
        if k == "cast":
            return self.eval_cast(st, fr, rv, dest_ty)
        if k == "discr":
            cur = self.resolve_place(st, fr, rv["place"])
            v = self.load(st, cur)
            if isinstance(v, VAdt):
                if v.variant is not None:
                    return VInt(Lin.const(self.discr_of_variant(v.path, v.variant)))
                return VInt(Lin.atom(self.discr_atom(v)))
            return self.materialize(st, dest_ty, ("discr", fresh_id()))
        if k == "agg":
            kind = rv["kind"]
            ops = [self.eval_operand(st, fr, o) for o in rv["ops"]]
            a = kind["agg"]
            if a == "tuple":
                return VTuple(ops)
            if a == "array":
                return VArray(tuple(ops), len(ops), None, self.rt(kind["of"]))
            if a == "adt":
                t = dest_ty if isinstance(dest_ty, dict) and dest_ty.get("k") == "adt" else None
                key = None
                if self.inv_targets is not None and self.rootset and kind["path"] in self.inv_targets and \
                        any(f.body["path"] in self.rootset for f in st.frames[1:]):
                    # constructed inside an inlined function that is analysed as a root itself: that analysis
                    # records the construction for all admissible inputs
                    key = ("rootborn",)
                v = VAdt(kind["path"], kind["variant"], tuple(ops), key, t)
                return v
            if a == "closure":
                return VClosure(kind["path"], ops)
            if a == "rawptr":
                return ops[0] if ops else VOpaque(None, ("rp", fresh_id()))
            return VOpaque(None, ("agg", fresh_id()))
        if k == "repeat":
            v = self.eval_operand(st, fr, rv["op"])
            n = rv["n"]
            if isinstance(dest_ty, dict) and dest_ty.get("k") == "array" and self.is_maybe_uninit_u8(dest_ty["of"]):
                return VArray(None, n, ("rep", fresh_id()), self.rt(dest_ty["of"]), init=Lin.const(0))
            if n is not None and n <= 64:
                return VArray(tuple([v] * n), n, None, self.rt(dest_ty["of"]) if isinstance(dest_ty, dict) and "of" in dest_ty else None)
            return VArray(None, n, ("rep", fresh_id()), self.rt(dest_ty["of"]) if isinstance(dest_ty, dict) and "of" in dest_ty else None)
        return self.materialize(st, dest_ty, ("rv", fresh_id()))

    def make_ref(self, st, fr, place, mut, raw=False):
        cur = self.resolve_place(st, fr, place)
        kind = cur[0]
        if kind == "place":
            # reference to array place: keep as VRef (Unsize cast makes a region)
            return VRef(cur[1], cur[2], cur[3], mut)
        if kind == "region":
            r = cur[1]
            return VRegion(r.origin, r.off, r.len, r.mut and mut)
        if kind == "byte":
            return VByteRef(cur[1], cur[2], cur[3] and mut)
        if kind == "ptrbyte":
            return cur[1]
        v = cur[1]
        return VOpaque(None, ("ref", fresh_id()))

    def eval_bin(self, st, fr, rv, dest_ty):
        op = rv["op"]
        a = self.eval_operand(st, fr, rv["a"])
        b = self.eval_operand(st, fr, rv["b"])
        aty = self.operand_type(fr, rv["a"])
        if op in ("Eq", "Ne", "Lt", "Le", "Gt", "Ge"):
            if isinstance(a, VInt) and isinstance(b, VInt):
                return VBool(cmp_formula(op, a.lin, b.lin))
            if isinstance(a, VBool) and isinstance(b, VBool):
                if op in ("Eq", "Ne"):
                    same = ("or", ("and", a.f, b.f), ("and", f_not(a.f), f_not(b.f)))
                    if a.f[0] == "c":
                        same = b.f if a.f[1] else f_not(b.f)
                    elif b.f[0] == "c":
                        same = a.f if b.f[1] else f_not(a.f)
                    return VBool(same if op == "Eq" else f_not(same))
            return VBool(("unk",))
        if op.endswith("WithOverflow"):
            base = op[:-len("WithOverflow")]
            if isinstance(a, VInt) and isinstance(b, VInt) and isinstance(aty, str) and aty in INT_TYPES:
                lo, hi = INT_TYPES[aty]
                if base == "Add":
                    r = a.lin + b.lin
                elif base == "Sub":
                    r = a.lin - b.lin
                else:
                    r = self.mul(a.lin, b.lin)
                over_hi = f_simplify(("ge", r - hi - 1))
                over_lo = f_simplify(("ge", Lin.const(lo) - r - 1))
                slo, shi = static_bounds(r)
                if slo is not None and slo >= lo:
                    over_lo = FALSE
                if shi is not None and shi <= hi:
                    over_hi = FALSE
                if over_lo == FALSE:
                    f = over_hi
                elif over_hi == FALSE:
                    f = over_lo
                else:
                    f = ("or", over_hi, over_lo)
                return VTuple((VInt(r), VBool(f)))
            return VTuple((self.materialize(st, aty, ("ovf", fresh_id())), VBool(("unk",))))
        if isinstance(a, VBool) and isinstance(b, VBool):
            if op == "BitAnd":
                return VBool(("and", a.f, b.f))
            if op == "BitOr":
                return VBool(("or", a.f, b.f))
            if op == "BitXor":
                return VBool(("or", ("and", a.f, f_not(b.f)), ("and", f_not(a.f), b.f)))
        if isinstance(a, VInt) and isinstance(b, VInt):
            ty = dest_ty if isinstance(dest_ty, str) else aty
            if op in ("Shl", "ShlUnchecked") and self.opts.get("bitor_oblig", True) and b.lin.is_const() and \
                    isinstance(ty, str) and ty in INT_TYPES and INT_TYPES[ty][0] == 0:
                # a left shift of an unsigned value must not push set bits out of the type (a silent truncation),
                # unless the result is masked / truncated on purpose right away (`(x << 4) & 0xf0`)
                k = b.lin.c
                hi_t = INT_TYPES[ty][1]
                fits = False
                alo, ahi = static_bounds(a.lin)
                if alo is not None and alo >= 0 and ahi is not None and (ahi << k) <= hi_t:
                    fits = True
                elif st.entails(a.lin) and st.entails(Lin.const(hi_t) - a.lin.scale(1 << k)):
                    fits = True
                if not fits:
                    fits = self.shl_is_masked(fr, k, ty)
                self.oblige(st, "shl", "left shift keeps all set bits", fits, self.cur_site, self.cur_sp,
                            "" if fits else "operand %s << %d may exceed %s; facts: %s" % (
                                show_lin(a.lin), k, ty, self.show_facts(st, a.lin)),
                            trivial=(alo is not None and ahi is not None and alo >= 0 and (ahi << k) <= hi_t),
                            expn=self.cur_expn)
            if op == "BitOr" and self.opts.get("bitor_oblig", True):
                ma, mb = mask_of_lin(a.lin), mask_of_lin(b.lin)
                disjoint = ma is not None and mb is not None and (ma & mb) == 0
                if not disjoint:
                    # refine the may-be-set masks with the upper bounds the path facts give
                    ma, mb = self.refined_mask(st, a.lin, ma), self.refined_mask(st, b.lin, mb)
                    disjoint = ma is not None and mb is not None and (ma & mb) == 0
                zero = (a.lin.is_const() and a.lin.c == 0) or (b.lin.is_const() and b.lin.c == 0)
                # `x |= CONST` (flag set in place on a raw byte) forces bits on purpose
                inplace = False
                dp = getattr(self, "_cur_dest", None)
                if dp is not None and b.lin.is_const():
                    ap = rv["a"].get("c") or rv["a"].get("m")
                    inplace = ap is not None and ap.get("l") == dp.get("l") and ap.get("p") == dp.get("p")
                if disjoint and not zero:
                    self._bitor_linear = True
                if inplace:
                    zero = True
                self.oblige(st, "bitor", "operands of | have disjoint bits", disjoint or zero, self.cur_site,
                            self.cur_sp, "masks %s %s" % (hex(ma) if ma is not None else "?",
                                                          hex(mb) if mb is not None else "?"), expn=self.cur_expn)
            if op == "BitOr" and getattr(self, "_bitor_linear", False):
                self._bitor_linear = False
                return VInt(a.lin + b.lin)
            self._bitor_linear = False
            r = self.int_binop(st, op, a.lin, b.lin, ty)
            self.add_def_facts(st, r)
            return VInt(r)
        if op == "Offset" and isinstance(a, VPtr) and isinstance(b, VInt):
            return self.ptr_add(st, a, b.lin)
        return self.materialize(st, dest_ty, ("bin", fresh_id()))

    def shl_is_masked(self, fr, k, ty):
        """is the result of the shift at the current site consumed only by `& CONST` (deliberate truncation)?"""
        dp = getattr(self, "_cur_dest", None)
        if dp is None or dp.get("p"):
            return False
        dl = dp["l"]
        body = fr.body
        uses = 0
        masked = 0
        for blk in body["blocks"]:
            for s_ in blk["stmts"]:
                if s_["s"] != "assign":
                    continue
                rv = s_["rvalue"]
                ops = [rv.get("a"), rv.get("b"), rv.get("op")] + list(rv.get("ops", []))
                for o in ops:
                    if isinstance(o, dict):
                        pl = o.get("c") or o.get("m")
                        if pl is not None and pl.get("l") == dl and not pl.get("p"):
                            uses += 1
                            if rv["rv"] == "bin" and rv["op"] == "BitAnd":
                                other = rv["b"] if o is rv["a"] else rv["a"]
                                if isinstance(other, dict) and "k" in other:
                                    masked += 1
        return uses > 0 and uses == masked

    def refined_mask(self, st, lin, m0):
        from .lin import sup_of
        if lin.is_const():
            return m0
        if lin.c != 0 or len(lin.t) != 1:
            s_ = sup_of(st.facts, lin)
            lo, _ = static_bounds(lin)
            if s_ is not None and lo is not None and lo >= 0:
                m = (1 << s_.bit_length()) - 1
                return m if m0 is None else (m & m0)
            return m0
        (a, k), = lin.t.items()
        if k <= 0 or (k & (k - 1)) != 0:
            return m0
        s_ = sup_of(st.facts, Lin.atom(a))
        lo = ATOM_LO.get(a)
        if s_ is None or lo is None or lo < 0:
            return m0
        m = ((1 << s_.bit_length()) - 1) << (k.bit_length() - 1)
        return m if m0 is None else (m & m0)

    def add_def_facts(self, st, lin):
        """definitional facts of freshly built non-linear atoms (valid in every state)"""
        a = lin.single_atom()
        if a is None or not isinstance(a, tuple):
            return
        k = a[0]
        try:
            if k == "shr":
                x = lin_from_key(a[1])
                p = 1 << a[2]
                st.add_ge0(x - Lin.atom(a).scale(p))
                st.add_ge0(Lin.atom(a).scale(p) + (p - 1) - x)
            elif k == "div":
                x = lin_from_key(a[1])
                p = a[2]
                st.add_ge0(x - Lin.atom(a).scale(p))
                st.add_ge0(Lin.atom(a).scale(p) + (p - 1) - x)
            elif k == "and" and isinstance(a[2], int):
                x = lin_from_key(a[1])
                lo, _ = static_bounds(x)
                if lo is not None and lo >= 0:
                    st.add_ge0(x - Lin.atom(a))
                    c = a[2]
                    # x & (2^k-1) = x mod 2^k :  x - and = 2^k * (x >> k)
                    if c & (c + 1) == 0:
                        kbits = c.bit_length()
                        q = self.int_binop(st, "Shr", x, Lin.const(kbits), "u64")
                        st.add_ge0(x - Lin.atom(a) - q.scale(c + 1))
                        st.add_ge0(q.scale(c + 1) - x + Lin.atom(a))
            elif k == "rem":
                x = lin_from_key(a[1])
                c = a[2]
                _, hi = static_bounds(x)
                q = reg_atom(("div", a[1], c), 0, None if hi is None else hi // c)
                st.add_ge0(x - Lin.atom(a) - Lin.atom(q).scale(c))
                st.add_ge0(Lin.atom(q).scale(c) - x + Lin.atom(a))
        except Infeasible:
            raise

    def eval_cast(self, st, fr, rv, dest_ty):
        kind = rv["kind"]
        v = self.eval_operand(st, fr, rv["op"])
        t = self.rt(rv["ty"])
        if kind == "IntToInt":
            src_ty = self.operand_type(fr, rv["op"])
            if isinstance(v, VBool):
                if v.f[0] == "c":
                    return VInt(Lin.const(1 if v.f[1] else 0))
                if v.f[0] == "ge":
                    xa = (v.f[1] + 1).single_atom()
                    if xa is not None and ATOM_LO.get(xa) == 0 and ATOM_HI.get(xa) == 1:
                        return VInt(Lin.atom(xa), prov=("bool", v.f))
                a = reg_atom(("b2i", fresh_id()), 0, 1)
                return VInt(Lin.atom(a), prov=("bool", v.f))
            if isinstance(v, VInt) and isinstance(t, str) and t in INT_TYPES:
                lo, hi = INT_TYPES[t]
                slo, shi = static_bounds(v.lin)
                src_rng = INT_TYPES.get(src_ty) if isinstance(src_ty, str) else None
                narrowing = src_rng is None or src_rng[0] < lo or src_rng[1] > hi
                inrange = (slo is not None and slo >= lo and shi is not None and shi <= hi)
                if not inrange and narrowing:
                    inrange = st.entails(v.lin - lo) and st.entails(Lin.const(hi) - v.lin)
                if narrowing:
                    self.note_cast(st, fr, v, src_ty, t, inrange)
                if inrange or not narrowing:
                    return VInt(v.lin)
                bits = INT_BITS[t]
                if lo == 0 and self.opts.get("bitfields", False) and slo is not None and slo >= 0:
                    # truncation of a non-negative value = masking
                    r = self.bitand(v.lin, Lin.const((1 << bits) - 1), t, st)
                    self.add_def_facts(st, r)
                    return VInt(r)
                m = mask_of_lin(v.lin)
                mm = (m & ((1 << bits) - 1)) if (m is not None and lo == 0) else None
                a = reg_atom(("trunc", v.lin.key(), t), lo, mm if mm is not None else hi, mm)
                return VInt(Lin.atom(a))
            return self.materialize(st, t, ("cast", fresh_id()))
        if kind == "PointerCoercion:Unsize":
            # &[u8;N] -> &[u8]
            if isinstance(v, VRegion):
                return v
            if isinstance(v, VRef):
                # reference to a local array -> region over that place
                pt = self.rt(t)
                if isinstance(pt, dict) and pt["k"] in ("ref", "ptr"):
                    to = self.rt(pt["to"])
                    if isinstance(to, dict) and to["k"] == "slice" and self.is_u8(to["of"]):
                        arr = self.load(st, ("place", v.fid, v.local, v.projs))
                        n = arr.n if isinstance(arr, VArray) else None
                        if n is not None:
                            origin = ("place", v.fid, v.local, v.projs)
                            return VRegion(origin, Lin.const(0), Lin.const(n), pt["mut"])
                    if isinstance(to, dict) and to["k"] == "slice" and not self.is_u8(to["of"]):
                        # &[T; N] -> &[T] for non-byte T: the reference itself (models look at the array behind it)
                        arr = self.load(st, ("place", v.fid, v.local, v.projs))
                        if isinstance(arr, VArray) and arr.n is not None:
                            if arr.ety is None:
                                arr = VArray(arr.elems, arr.n, arr.key, self.rt(to["of"]), init=arr.init)
                                self.store(st, ("place", v.fid, v.local, v.projs), arr)
                            return v
                return VOpaque(t, ("unsize", fresh_id()))
            return v if v is not None else VOpaque(t, ("unsize", fresh_id()))
        if kind == "PtrToPtr":
            if isinstance(v, VPtr):
                to = self.rt(t["to"]) if isinstance(t, dict) and "to" in t else None
                return VPtr(v.origin, v.off, v.lo, v.hi, v.mut)
            if isinstance(v, VRegion):
                return VPtr(v.origin, v.off, v.off, v.off + v.len, v.mut)
            if isinstance(v, VRef):
                return v
            return VOpaque(t, ("ptp", fresh_id()))
        if kind == "PointerExposeProvenance":
            if isinstance(v, VPtr):
                base = reg_atom(("addr", v.origin), 1, I64MAX)
                return VInt(Lin.atom(base) + v.off)
            if isinstance(v, VRegion):
                base = reg_atom(("addr", v.origin), 1, I64MAX)
                return VInt(Lin.atom(base) + v.off)
            a = reg_atom(("addr", ("unk", fresh_id())), 0, U64MAX)
            return VInt(Lin.atom(a))
        if kind == "Transmute":
            adt = self.F.adts.get(t["path"]) if isinstance(t, dict) and t.get("k") == "adt" else None
            if adt is not None and adt["kind"] == "enum" and isinstance(v, VInt) and \
                    all(not x["fields"] for x in adt["variants"]):
                ds = sorted(x["discr"] for x in adt["variants"])
                contiguous = ds == list(range(ds[0], ds[-1] + 1))
                ok = contiguous and st.entails(v.lin - ds[0]) and st.entails(Lin.const(ds[-1]) - v.lin)
                self.oblige(st, "valid", "transmute integer to enum %s: value is a declared discriminant" % t["path"],
                            ok, self.cur_site, self.cur_sp,
                            "" if ok else "need %d <= %s <= %d; facts: %s" % (ds[0], show_lin(v.lin), ds[-1],
                                                                             self.show_facts(st, v.lin)),
                            expn=self.cur_expn)
                res = self.materialize(st, t, ("transmute", fresh_id()))
                if isinstance(res, VAdt) and res.variant is None:
                    da = self.discr_atom(res)
                    st.add_ge0(Lin.atom(da) - v.lin)
                    st.add_ge0(v.lin - Lin.atom(da))
                return res
            self.oblige(st, "valid", "transmute", False, self.cur_site, self.cur_sp, "transmute not modelled",
                        expn=self.cur_expn)
            return self.materialize(st, t, ("transmute", fresh_id()))
        if kind.startswith("PointerCoercion"):
            return v
        return self.materialize(st, t, ("cast", fresh_id()))

    def note_cast(self, st, fr, v, src_ty, dst_ty, inrange):
        if not self.opts.get("cast_oblig", True):
            return
        detail = ""
        if not inrange:
            detail = "operand %s not proved inside %s; facts: %s" % (show_lin(v.lin), dst_ty, self.show_facts(st, v.lin))
        triv = False
        slo, shi = static_bounds(v.lin)
        if slo is not None and shi is not None:
            lo, hi = INT_TYPES[dst_ty]
            triv = slo >= lo and shi <= hi
        desc = "narrowing cast %s -> %s is lossless" % (src_ty, dst_ty)
        if not inrange and self.opts.get("defer_cast", True) and dst_ty in INT_TYPES:
            # decided where the truncated value can first matter: at the next write to a writer, or when the root
            # returns without an error (a path that goes on to return Err discards the value)
            lo, hi = INT_TYPES[dst_ty]
            fr0 = st.frames[-1]
            st.notes["lossy"] = st.notes.get("lossy", ()) + ((fr0.body["path"], self.cur_site, desc, self.ctx(st),
                                                              self.cur_sp, self.cur_expn, v.lin, lo, hi),)
            return
        self.oblige(st, "cast", desc, inrange, self.cur_site, self.cur_sp, detail, triv, expn=self.cur_expn)

    def decide_lossy(self, st, discarded=False, why=""):
        pend = st.notes.get("lossy")
        if not pend:
            return
        st.notes["lossy"] = ()
        for (fn, site, desc, ctx, sp, expn, lin, lo, hi) in pend:
            if discarded:
                ok, detail = True, "truncated value is discarded: the path returns Err"
            else:
                ok = st.entails(lin - lo) and st.entails(Lin.const(hi) - lin)
                detail = "" if ok else "operand %s not proved inside [%d, %d] %s; facts: %s" % (
                    show_lin(lin), lo, hi, why, self.show_facts(st, lin))
            self.sink.add(Oblig("cast", fn, site, desc, ok, ctx, sp, detail, False, expn))

    def ptr_add(self, st, p, n, what="ptr.add"):
        noff = p.off + n
        if p.lo is None:
            self.oblige(st, "read", what, False, self.cur_site, self.cur_sp, "pointer with unknown extent")
        else:
            g1 = noff - p.lo
            g2 = p.hi - noff
            ok = st.entails(g1) and st.entails(g2)
            self.oblige(st, "read", what + " stays inside (or one past) the region", ok, self.cur_site, self.cur_sp,
                        "" if ok else "need %s>=0 and %s>=0; facts: %s" % (show_lin(g1), show_lin(g2),
                                                                           self.show_facts(st, g2)),
                        trivial=g1.is_const() and g2.is_const())
        return VPtr(p.origin, noff, p.lo, p.hi, p.mut)

    # ------------------------------------------------------------------ execution
    def new_frame(self, st, body, args, ret_k, callsite, tysubst=None):
        fid = st.next_fid
        st.next_fid += 1
        locs = {}
        for i, a in enumerate(args):
            locs[i + 1] = a
        depth = len(st.frames)
        fr = Frame(fid, body, locs, 0, ret_k, depth, callsite, tysubst)
        st.frames.append(fr)
        self.entered.add(body["path"])
        return fr

    def strip_refs(self, t):
        t = self.rt(t)
        while isinstance(t, dict) and t["k"] == "ref":
            t = self.rt(t["to"])
        return t

    def typestate_flows(self):
        """(fn, arg index) -> names of the concrete typestate instantiations handed to a parameter whose declared type
        is a typestate struct at a generic instantiation (collected over all call sites, through generic callers)"""
        r = getattr(self.F, "_ts_flows", None)
        if r is not None:
            return r
        ts = self.typestate_structs()
        flows, edges = {}, []
        if ts:
            class Shim:
                pass
            for b in self.F.body_list:
                sh = Shim()
                sh.body = b
                for blk in b["blocks"]:
                    t = blk["term"]
                    if t["t"] != "call" or "indirect" in t["callee"]:
                        continue
                    P = t["callee"].get("res") if t["callee"].get("res_local") else None
                    cb = self.F.bodies.get(P) if P else None
                    if cb is None:
                        continue
                    for i in range(min(cb["arg_count"], len(t["args"]))):
                        pt = self.strip_refs(cb["locals"][i + 1][0])
                        if not (isinstance(pt, dict) and pt["k"] == "adt" and pt["path"] in ts) or \
                                self.inv_name(pt["path"], pt) is not None:
                            continue
                        at = self.operand_type(sh, t["args"][i])
                        at = self.strip_refs(at) if at is not None else None
                        if not (isinstance(at, dict) and at["k"] == "adt" and at["path"] == pt["path"]):
                            flows.setdefault((P, i), set()).add(None)  # unknown source: no assumption possible
                            continue
                        nm = self.inv_name(at["path"], at)
                        if nm is not None:
                            flows.setdefault((P, i), set()).add(nm)
                        else:
                            src = None
                            for j in range(b["arg_count"]):
                                jt = self.strip_refs(b["locals"][j + 1][0])
                                if isinstance(jt, dict) and jt["k"] == "adt" and self.tstr(jt) == self.tstr(at):
                                    src = (b["path"], j)
                            if src is None:
                                flows.setdefault((P, i), set()).add(None)
                            else:
                                edges.append(((P, i), src))
            changed = True
            while changed:
                changed = False
                for dst, src in edges:
                    a = flows.setdefault(dst, set())
                    n = len(a)
                    a |= flows.get(src, set())
                    if len(a) != n:
                        changed = True
        self.F._ts_flows = flows
        return flows

    def analyze_root(self, body, assume_inv=True):
        """analyse function body standalone with unconstrained (invariant-respecting) parameters"""
        self.root = body
        st = State()
        args = []
        path = body["path"]
        for i in range(body["arg_count"]):
            t = body["locals"][i + 1][0]
            try:
                args.append(self.materialize(st, t, ("arg", path, i), assume_inv))
            except Infeasible:
                return
        starts = [st]
        if assume_inv and self.typestate_structs():
            # parameters typed by a typestate struct at a generic instantiation: one start state per concrete
            # instantiation that is handed to this function anywhere in the crate
            flows = self.typestate_flows()
            for i in range(body["arg_count"]):
                names = flows.get((path, i))
                if not names or None in names:
                    continue
                v = args[i]
                if isinstance(v, VRef):
                    v = self.load(st, ("place", v.fid, v.local, v.projs))
                if not (isinstance(v, VAdt) and v.key is not None):
                    continue
                nxt = []
                for s0 in starts:
                    for nm in sorted(names):
                        if nm not in self.inv:
                            nxt.append(s0.fork())
                            continue
                        s1 = s0.fork()
                        try:
                            self.assume_invariant(s1, nm, v.key)
                        except Infeasible:
                            continue
                        nxt.append(s1)
                starts = nxt
        for s0 in starts:
            self.new_frame(s0, body, args, None, None)
        try:
            self.explore(starts, None)
        except AnalysisAbort as e:
            self.sink.events.append(("abort", path, str(e)))

    def explore(self, work, stop):
        """run states until they finish (root return) or stop(st) is true.  returns stopped states."""
        stopped = []
        work = list(work)
        while work:
            st = work.pop()
            while True:
                if stop is not None:
                    r = stop(st)
                    if r:
                        stopped.append((r, st))
                        break
                if not st.frames:
                    break
                self.steps += 1
                if self.steps > self.budget:
                    raise AnalysisAbort("budget exceeded (%d steps)" % self.budget)
                fr = st.frames[-1]
                # loop entry?
                info = cfg_info(fr.body)
                if fr.block in info["loops"] and (not st.loop_ctx or st.loop_ctx[-1] != (fr.fid, fr.block)):
                    un = self.opts.get("unroll")
                    if un:
                        # comparison runs over finite-state loops: plain unrolling (exact), bounded
                        k = ("unroll", fr.fid, fr.block)
                        n = st.notes.get(k, 0) + 1
                        st.notes[k] = n
                        if n > un:
                            self.sink.events.append(("unroll_bound", fr.body["path"], fr.block))
                            break
                    else:
                        exits = self.handle_loop(st, fr, info)
                        work.extend(exits)
                        break
                succ = self.exec_block(st, fr)
                if not succ:
                    break
                if len(succ) == 1:
                    st = succ[0]
                    continue
                work.extend(succ[1:])
                st = succ[0]
        return stopped

    def exec_block(self, st, fr):
        body = fr.body
        blk = body["blocks"][fr.block]
        try:
            for si, s in enumerate(blk["stmts"]):
                self.cur_site = (fr.block, si)
                self.cur_sp = s.get("sp")
                self.cur_expn = s.get("ex")
                self.exec_stmt(st, fr, s)
            t = blk["term"]
            self.cur_site = (fr.block, "t")
            self.cur_sp = t.get("sp")
            self.cur_expn = t.get("ex")
            return self.exec_term(st, fr, t)
        except Infeasible:
            return []

    def exec_stmt(self, st, fr, s):
        k = s["s"]
        if k == "assign":
            place = s["place"]
            dty = self.place_type(fr, place)
            self._cur_dest = place
            v = self.eval_rvalue(st, fr, s["rvalue"], dty)
            self._cur_dest = None
            cur = self.resolve_place(st, fr, place)
            if cur[0] == "ptrbyte":
                p = cur[1]
                self.prove_range(st, "write", "write through raw pointer", p.off, Lin.const(1), p.lo, p.hi,
                                 self.cur_site, self.cur_sp)
                if p.mut or True:
                    self.write_byte(st, p.origin, p.off, v)
                return
            if self.field_write_hook and place.get("p"):
                self.field_write_hook(self, st, fr, place, cur, v)
            self.store(st, cur, v)
        elif k == "dead":
            pass
        elif k == "setdiscr":
            cur = self.resolve_place(st, fr, s["place"])
            v = self.load(st, cur)
            if isinstance(v, VAdt):
                self.store(st, cur, VAdt(v.path, s["variant"], v.fields if v.variant == s["variant"] else None, v.key, v.ty))
        elif k == "assume":
            v = self.eval_operand(st, fr, s["op"])
            if isinstance(v, VBool):
                st.assume(v.f)
        elif k == "copy_nonoverlapping":
            src = self.eval_operand(st, fr, s["src"])
            dst = self.eval_operand(st, fr, s["dst"])
            cnt = self.eval_operand(st, fr, s["count"])
            self.model_copy(st, src, dst, cnt)
        else:
            pass

    field_write_hook = None
    ret_hook = None

    def model_copy(self, st, src, dst, cnt):
        n = cnt.lin if isinstance(cnt, VInt) else None
        for what, p, kind in (("copy source", src, "read"), ("copy destination", dst, "write")):
            if isinstance(p, VPtr) and n is not None:
                self.prove_range(st, kind, "copy_nonoverlapping " + what, p.off, n, p.lo, p.hi, self.cur_site,
                                 self.cur_sp)
            else:
                self.oblige(st, kind, "copy_nonoverlapping " + what, False, self.cur_site, self.cur_sp,
                            "unmodelled pointer %r" % (p,))
        if isinstance(dst, VPtr):
            self.havoc_region(st, VRegion(dst.origin, dst.off, n if n is not None else Lin.const(0), True))

    def goto(self, st, fr, target):
        fr.block = target
        return [st]

    def exec_term(self, st, fr, t):
        k = t["t"]
        if k == "goto":
            return self.goto(st, fr, t["target"])
        if k == "switch":
            return self.exec_switch(st, fr, t)
        if k == "return":
            return self.exec_return(st, fr)
        if k == "unreachable":
            # reaching an Unreachable terminator with a feasible state: only legal after enum exhaustive match
            self.sink.events.append(("unreachable", fr.body["path"], self.cur_site, self.cur_sp, self.ctx(st)))
            return []
        if k == "drop":
            return self.goto(st, fr, t["target"])
        if k == "assert":
            return self.exec_assert(st, fr, t)
        if k == "call":
            return self.exec_call(st, fr, t)
        if k in ("resume", "terminate"):
            return []
        self.sink.events.append(("unknown_term", fr.body["path"], self.cur_site, t.get("d")))
        return []

    def single_slice_param(self, body):
        """index of the only immutable byte-slice parameter of body (or None)"""
        r = body.get("_ssp", -1)
        if r != -1:
            return r
        found = []
        for i in range(body["arg_count"]):
            t = self.rt(body["locals"][i + 1][0])
            if isinstance(t, dict) and t["k"] == "ref" and not t["mut"]:
                to = self.rt(t["to"])
                if isinstance(to, dict) and to["k"] in ("slice", "array") and self.rt(to["of"]) == "u8":
                    found.append(i)
        r = found[0] if len(found) == 1 else None
        body["_ssp"] = r
        return r

    def walk_regions(self, v, path=(), depth=0):
        if depth > 6 or v is None:
            return
        if isinstance(v, VRegion):
            yield path, v
        elif isinstance(v, VAdt) and v.fields is not None:
            adt = self.F.adts.get(v.path)
            isenum = adt is not None and adt["kind"] == "enum"
            for i, f in enumerate(v.fields):
                p2 = path + ((("V", v.variant), i) if isenum else (i,))
                for x in self.walk_regions(f, p2, depth + 1):
                    yield x
        elif isinstance(v, VTuple):
            for i, f in enumerate(v.fields):
                for x in self.walk_regions(f, path + (i,), depth + 1):
                    yield x

    def walk_lenerrs(self, v, depth=0):
        if depth > 6 or v is None:
            return
        if isinstance(v, VAdt):
            if v.path == "err::len_error::LenError" and v.fields is not None:
                yield v
            elif v.fields is not None:
                for f in v.fields:
                    if isinstance(f, (VAdt, VTuple)):
                        for x in self.walk_lenerrs(f, depth + 1):
                            yield x
            elif v.variant is None and v.ty is not None and "Error" in v.path:
                yield "unknown"
        elif isinstance(v, VTuple):
            for f in v.fields:
                if isinstance(f, (VAdt, VTuple)):
                    for x in self.walk_lenerrs(f, depth + 1):
                        yield x

    def int_range(self, st, lin, cap=1 << 40):
        """(lo, hi) constants with st |= lo <= lin <= hi, hi <= cap; None when no such bound is entailed"""
        if lin.is_const():
            return (lin.c, lin.c)
        if len(lin.t) > 8:
            return None
        if not st.entails(Lin.const(cap) - lin) or not st.entails(lin):
            return None
        a, b = 0, cap
        # exponent first, then exact
        k = 0
        while (1 << k) < cap and not st.entails(Lin.const(1 << k) - lin):
            k += 1
        b = min(cap, 1 << k)
        a = 0 if k == 0 else (1 << (k - 1))
        while a < b:
            m = (a + b) // 2
            if st.entails(Lin.const(m) - lin):
                b = m
            else:
                a = m + 1
        hi = b
        a, b = 0, hi
        while a < b:
            m = (a + b + 1) // 2
            if st.entails(lin - m):
                a = m
            else:
                b = m - 1
        return (a, hi)

    def record_provenance(self, st, fr, rv):
        body = fr.body
        if self.prov is None:
            self.prov = {}
        if isinstance(rv, VInt) and self.prov.get("__range__") != "unbounded" and \
                self.rt(body["locals"][0][0]) in ("usize", "u32", "u64"):
            rg = self.int_range(st, rv.lin)
            if rg is None:
                self.prov["__range__"] = "unbounded"
            else:
                cur = self.prov.get("__range__")
                self.prov["__range__"] = rg if cur is None else (min(cur[0], rg[0]), max(cur[1], rg[1]))
        # which length sources can a returned LenError carry
        for le in self.walk_lenerrs(rv):
            cur = self.prov.setdefault("__lensrc__", set())
            if le == "unknown":
                cur.add("any")
            else:
                src = le.fields[2]
                cur.add(src.variant if isinstance(src, VAdt) and src.variant is not None else "any")
        i = self.single_slice_param(body)
        if i is None:
            return
        origin = ("s", ("arg", body["path"], i))
        total = Lin.atom(("len", origin))
        t = self.rt(body["locals"][i + 1][0])
        to = self.rt(t["to"])
        if to["k"] == "array" and to["len"] is not None:
            total = Lin.const(to["len"])
        for path, r in self.walk_regions(rv):
            cur = self.prov.get(path)
            if cur == "foreign":
                continue
            if r.origin != origin:
                if r.origin[0] in ("const", "empty") or r.len.is_const() and r.len.c == 0:
                    continue
                self.prov[path] = "foreign"
                continue
            pre = st.entails(r.off) and st.entails(-r.off)
            d = r.off + r.len - total
            suf = st.entails(d) and st.entails(-d)
            oc = r.off.c if r.off.is_const() else None
            if cur is None:
                self.prov[path] = [pre, suf, oc]
            else:
                cur[0] = cur[0] and pre
                cur[1] = cur[1] and suf
                if cur[2] != oc:
                    cur[2] = None

    def flush_dirty(self, st, fr, returning=False):
        if not fr.dirty:
            return
        for (fid, local, projs) in fr.dirty:
            if returning and fid == fr.fid:
                # a local of the returning frame dies here; what escapes is the return value (walked separately)
                continue
            v = self.load(st, ("place", fid, local, projs))
            self.record_escaping(st, v)
        fr.dirty = ()

    def record_escaping(self, st, v, depth=0):
        """record every invariant-bearing struct value contained in v (a value that becomes observable)"""
        if depth > 5 or v is None:
            return
        if isinstance(v, VAdt):
            if v.fields is None:
                return
            if v.variant == 0 and v.path in self.inv_targets and v.key is None:
                self.record_construction(st, v)
            elif v.variant == 0 and v.path in self.inv_targets:
                # materialised (assumed valid) values: only re-record when they were modified, which gives key None
                pass
            for f in v.fields:
                if isinstance(f, (VAdt, VTuple)):
                    self.record_escaping(st, f, depth + 1)
        elif isinstance(v, VTuple):
            for f in v.fields:
                if isinstance(f, (VAdt, VTuple)):
                    self.record_escaping(st, f, depth + 1)

    def exec_return(self, st, fr):
        if self.inv_targets is not None:
            if fr.dirty:
                self.flush_dirty(st, fr, returning=True)
            rv0 = fr.locals.get(0)
            if isinstance(rv0, (VAdt, VTuple)):
                self.record_escaping(st, rv0)
        rv = fr.locals.get(0)
        if rv is None:
            rv = VTuple(())
        if len(st.frames) == 1 and st.notes.get("lossy"):
            is_err = isinstance(rv, VAdt) and rv.path == "core::result::Result" and (
                rv.variant == 1 or (rv.variant is None and rv.key is not None and
                                    st.entails(Lin.atom(self.discr_atom(rv)) - 1)))
            self.decide_lossy(st, discarded=is_err, why="when the function returns")
        st.frames.pop()
        if not st.frames:
            if self.return_hook:
                self.return_hook(self, st, fr, rv)
            if self.collect_prov:
                self.record_provenance(st, fr, rv)
            if self.keep_finals:
                self.finals.append((st, rv))
            return []
        if fr.ret_k is None:
            return []
        return fr.ret_k(st, rv)

    def simple_block(self, body, bi):
        """block made of plain local assignments ending in goto: returns goto target or None"""
        cache = body.setdefault("_simple", {})
        if bi in cache:
            return cache[bi]
        blk = body["blocks"][bi]
        res = None
        t = blk["term"]
        if t["t"] == "goto" and bi not in cfg_info(body)["loops"]:
            ok = True
            for s in blk["stmts"]:
                if s["s"] == "dead":
                    continue
                if s["s"] != "assign" or s["place"].get("p"):
                    ok = False
                    break
                rv = s["rvalue"]
                if rv["rv"] not in ("use", "bin", "un", "cast") or (rv["rv"] == "bin" and rv["op"].endswith("WithOverflow")):
                    ok = False
                    break
                if rv["rv"] == "cast" and rv["kind"] != "IntToInt":
                    ok = False
                    break
            if ok:
                res = t["target"]
        cache[bi] = res
        return res

    def cond_lin(self, st, f):
        """a Lin that is 1 when f holds and 0 otherwise (may add linking facts)"""
        if f[0] == "ge":
            xa = (f[1] + 1).single_atom()
            if xa is not None and ATOM_LO.get(xa) == 0 and ATOM_HI.get(xa) == 1:
                return Lin.atom(xa)
            nx = (-(f[1])).single_atom()
            if nx is not None and ATOM_LO.get(nx) == 0 and ATOM_HI.get(nx) == 1:
                return Lin.const(1) - Lin.atom(nx)
        if f[0] in ("ne", "eq") and len(f[1].t) == 1 and f[1].c == 0:
            # (c * bit) != 0  is the bit itself
            (xa, _k), = f[1].t.items()
            if ATOM_LO.get(xa) == 0 and ATOM_HI.get(xa) == 1:
                return Lin.atom(xa) if f[0] == "ne" else Lin.const(1) - Lin.atom(xa)
        if f[0] in ("ge", "eq", "ne"):
            # the same condition always maps to the same 0/1 atom
            c = reg_atom(("b2if", f[0], f[1].key()), 0, 1)
        else:
            c = reg_atom(("b2i", fresh_id()), 0, 1)
        pos = conj_of(f)
        neg = conj_of(f_not(f))
        if pos is not None and neg is not None:
            d = [[Lin.atom(c) - 1] + list(pos), [Lin.atom(c).scale(-1)] + list(neg)]
            if not any(x == d for x in st.disj):
                st.disj.append(d)
        return Lin.atom(c)

    def try_if_convert(self, st, fr, t, v):
        """`if c { x = a } else { x = b }` with tiny arms: run both arms and merge integer locals"""
        if len(t["targets"]) != 1 or t["targets"][0][0] != 0 or v.f[0] in ("unk", "c"):
            return None
        body = fr.body
        A = t["targets"][0][1]  # false arm
        B = t["otherwise"]  # true arm
        ja = self.simple_block(body, A)
        jb = self.simple_block(body, B)
        if ja is not None and jb is not None and ja == jb:
            join, runA, runB = ja, True, True
        elif jb is not None and jb == A:
            join, runA, runB = A, False, True
        elif ja is not None and ja == B:
            join, runA, runB = B, True, False
        else:
            return None
        if join in cfg_info(body)["loops"]:
            return None
        sf = st.fork()
        stt = st.fork()
        try:
            sf.assume(f_not(v.f))
            stt.assume(v.f)
            if not self.feasible_after(sf, v.f) or not self.feasible_after(stt, v.f):
                return None
        except Infeasible:
            return None
        nobl = len(self.sink.obligs)
        try:
            for s2, run, bi in ((sf, runA, A), (stt, runB, B)):
                if not run:
                    continue
                f2 = s2.frames[-1]
                for si, s in enumerate(body["blocks"][bi]["stmts"]):
                    self.cur_site = (bi, si)
                    self.cur_sp = s.get("sp")
                    self.cur_expn = s.get("ex")
                    self.exec_stmt(s2, f2, s)
        except Infeasible:
            del self.sink.obligs[nobl:]
            return None
        la, lb = sf.frames[-1].locals, stt.frames[-1].locals
        diffs = []
        from .loops import same_value
        for l in set(la) | set(lb):
            x, y = la.get(l), lb.get(l)
            if x is y:
                continue
            if x is None or y is None:
                continue
            if same_value(x, y):
                continue
            if isinstance(x, VInt) and isinstance(y, VInt):
                diffs.append((l, x, y))
            elif isinstance(x, VBool) and isinstance(y, VBool):
                diffs.append((l, x, y))
            else:
                del self.sink.obligs[nobl:]
                return None
        if len(sf.facts) > len(st.facts) + 3 or len(stt.facts) > len(st.facts) + 3:
            pass
        merged = st
        mf = merged.frames[-1]
        c = None
        for l, x, y in diffs:
            if isinstance(x, VBool):
                a = reg_atom(("v", ("phi", fresh_id())), 0, 1)
                mf.locals[l] = VBool(("ge", Lin.atom(a) - 1))
                continue
            d = y.lin - x.lin
            if d.is_const():
                if c is None:
                    c = self.cond_lin(merged, v.f)
                mf.locals[l] = VInt(x.lin + c.scale(d.c), prov=("phi", v.f, x, y))
            else:
                xlo, xhi = static_bounds(x.lin)
                ylo, yhi = static_bounds(y.lin)
                lo = None if xlo is None or ylo is None else min(xlo, ylo)
                hi = None if xhi is None or yhi is None else max(xhi, yhi)
                mf.locals[l] = VInt(Lin.atom(reg_atom(("v", ("phi", fresh_id())), lo, hi)), prov=("phi", v.f, x, y))
        # locals assigned in only one arm keep the value of that arm when identical; others stay
        for l in set(la) | set(lb):
            if l not in mf.locals:
                x, y = la.get(l), lb.get(l)
                if x is not None and y is not None and same_value(x, y):
                    mf.locals[l] = x
        for l in la:
            if l in lb and l in mf.locals and not any(l == d[0] for d in diffs):
                if same_value(la[l], lb[l]):
                    mf.locals[l] = la[l]
        mf.block = join
        return [merged]

    def exec_switch(self, st, fr, t):
        v = self.eval_operand(st, fr, t["discr"])
        targets = t["targets"]
        out = []
        if isinstance(v, VBool) and self.opts.get("if_convert", True):
            r = self.try_if_convert(st, fr, t, v)
            if r is not None:
                return r
        if isinstance(v, VBool):
            f = v.f
            for val, bb in targets:
                # val 0 -> false branch
                s2 = st.fork()
                try:
                    g = f_not(f) if val == 0 else f
                    if g[0] == "unk":
                        pass
                    else:
                        s2.assume(g)
                        if not self.feasible_after(s2, g):
                            continue
                except Infeasible:
                    continue
                s2.frames[-1].block = bb
                out.append(s2)
            s2 = st
            try:
                # otherwise: negation of all listed
                ok = True
                for val, bb in targets:
                    g = f if val == 0 else f_not(f)
                    if g[0] != "unk":
                        s2.assume(g)
                        if not self.feasible_after(s2, g):
                            ok = False
                            break
                if ok:
                    s2.frames[-1].block = t["otherwise"]
                    out.append(s2)
            except Infeasible:
                pass
            return out
        if isinstance(v, VInt):
            l = v.lin
            if l.is_const():
                for val, bb in targets:
                    if self.switch_val(val, t) == l.c:
                        return self.goto(st, fr, bb)
                return self.goto(st, fr, t["otherwise"])
            for val, bb in targets:
                val = self.switch_val(val, t)
                s2 = st.fork()
                try:
                    g = ("eq", l - val)
                    s2.assume(g)
                    if not self.feasible_after(s2, g):
                        continue
                except Infeasible:
                    continue
                s2.frames[-1].block = bb
                out.append(s2)
            s2 = st
            try:
                ok = True
                for val, bb in targets:
                    val = self.switch_val(val, t)
                    s2.add_ne0(l - val)
                if not s2.feasible(set(l.atoms())):
                    ok = False
                if ok:
                    s2.frames[-1].block = t["otherwise"]
                    out.append(s2)
            except Infeasible:
                pass
            return out
        # unknown discriminant: all targets possible
        for val, bb in targets:
            s2 = st.fork()
            s2.frames[-1].block = bb
            out.append(s2)
        st.frames[-1].block = t["otherwise"]
        out.append(st)
        return out

    def switch_val(self, val, t):
        dty = self.rt(t["dty"])
        if isinstance(dty, str) and dty in INT_TYPES and INT_TYPES[dty][0] < 0:
            bits = INT_BITS[dty]
            if val >= (1 << (bits - 1)):
                return val - (1 << bits)
        return val

    def feasible_after(self, st, g):
        atoms = set()
        self.formula_atoms(g, atoms)
        if not atoms:
            return True
        return st.feasible(atoms)

    def formula_atoms(self, f, acc):
        k = f[0]
        if k in ("ge", "eq", "ne"):
            acc.update(f[1].atoms())
        elif k in ("and", "or"):
            self.formula_atoms(f[1], acc)
            self.formula_atoms(f[2], acc)

    def exec_assert(self, st, fr, t):
        v = self.eval_operand(st, fr, t["cond"])
        exp = t["expected"]
        msg = t["msg"]
        kind = msg["kind"]
        if isinstance(v, VBool) and v.f[0] != "unk":
            good = v.f if exp else f_not(v.f)
            proved = st.holds(good)
            detail = ""
            if not proved:
                detail = "cannot prove %s; facts: %s" % (self.show_formula(good), self.facts_for_formula(st, good))
            triv = good[0] == "c"
            self.oblige(st, "panic", "assert " + kind + (" " + msg.get("op", "") if "op" in msg else ""), proved,
                        self.cur_site, self.cur_sp, detail, triv, expn=self.cur_expn)
            try:
                st.assume(good)
                if not self.feasible_after(st, good):
                    return []
            except Infeasible:
                return []
        else:
            self.oblige(st, "panic", "assert " + kind, False, self.cur_site, self.cur_sp, "condition unknown",
                        expn=self.cur_expn)
        return self.goto(st, fr, t["target"])

    def show_formula(self, f):
        k = f[0]
        if k in ("ge", "eq", "ne"):
            return "%s %s 0" % (show_lin(f[1]), {"ge": ">=", "eq": "==", "ne": "!="}[k])
        if k in ("and", "or"):
            return "(%s %s %s)" % (self.show_formula(f[1]), k, self.show_formula(f[2]))
        return repr(f)

    def facts_for_formula(self, st, f):
        atoms = set()
        self.formula_atoms(f, atoms)
        l = Lin({a: 1 for a in atoms}, 0)
        return self.show_facts(st, l)

    # ------------------------------------------------------------------ calls
    def exec_call(self, st, fr, t):
        callee = t["callee"]
        dest = t["dest"]
        target = t["target"]
        args = [self.eval_operand(st, fr, a) for a in t["args"]]
        dty = self.place_type(fr, dest)
        site = self.cur_site
        sp = self.cur_sp
        expn = self.cur_expn
        caller_fid = fr.fid

        def ret_k(st2, val, _dest=dest, _target=target, _fid=caller_fid):
            f2 = st2.frames[-1]
            if _target is None:
                return []
            self.cur_site = site
            self.cur_sp = sp
            self.cur_expn = expn
            if self.ret_hook is not None:
                self.ret_hook(st2, f2, val, callee, dty, site, sp)
            cur = self.resolve_place(st2, f2, _dest)
            self.store(st2, cur, val)
            f2.block = _target
            return [st2]

        if "indirect" in callee:
            fv = self.eval_operand(st, fr, callee["indirect"])
            return self.call_value(st, fv, args, dty, ret_k, site)
        path = callee.get("res") or callee["decl"]
        decl = callee["decl"]
        if st.notes.get("lossy") and decl in ("writer::CoreWrite::write_all", "std::io::Write::write_all"):
            self.decide_lossy(st, why="before the next write")
        if self.inv_targets is not None:
            body0 = self.F.bodies.get(path) if callee.get("res_local") else None
            will_inline = body0 is not None and (len(st.frames) <= self.max_depth or body0.get("unsafe")) and \
                self.models.lookup(path, decl, callee) is None
            if not will_inline or (self.rootset and path in self.rootset):
                # (an inlined callee that is analysed as a root itself assumes the invariants of its parameters, and
                #  constructions below it are left to that analysis: what is handed to it must be recorded here)
                for a in args:
                    if isinstance(a, (VAdt, VTuple)):
                        self.record_escaping(st, a)
                    elif isinstance(a, VRef) and not (a.fid == 0 and isinstance(a.local, tuple) and a.local and a.local[0] == "h"):
                        tv = self.load(st, ("place", a.fid, a.local, a.projs))
                        if isinstance(tv, (VAdt, VTuple)):
                            self.record_escaping(st, tv)
        call = CallInfo(self, st, fr, t, callee, path, decl, args, dty, ret_k, site, sp, expn)
        # models (by resolved path, then by declared path)
        m = self.models.lookup(path, decl, callee)
        if m is not None:
            r = m(call)
            if r is not NOT_HANDLED:
                return r
        body = self.F.bodies.get(path) if (callee.get("res_local") or (callee.get("res") is None and callee.get("local"))) else None
        if body is not None and callee.get("res") is not None:
            return self.call_body(st, body, args, dty, ret_k, site, callee, force=bool(body.get("unsafe")))
        # unmodelled
        if callee.get("unsafe"):
            self.oblige(st, "prec", "unmodelled unsafe call " + path, False, site, sp, "", expn=expn)
        self.sink.events.append(("unmodelled", path, fr.body["path"], sp))
        return self.havoc_call(st, args, dty, ret_k, t)

    def is_small_leaf(self, body):
        r = body.get("_leaf")
        if r is None:
            r = len(body["blocks"]) <= 8 and not cfg_info(body)["loops"]
            if r:
                for blk in body["blocks"]:
                    t = blk["term"]
                    if t["t"] == "call":
                        c = t["callee"]
                        if c.get("res_local") or (c.get("res") is None and c.get("local")) or "indirect" in c:
                            r = False
                            break
            body["_leaf"] = r
        return r

    def is_guard_fn(self, body):
        """small loop-free function that can reject its argument with a ValueTooBigError: what its Ok return implies is
        needed by the caller (a later narrowing of the same quantity), so it is inlined one level beyond the depth"""
        r = body.get("_guard")
        if r is None:
            r = False
            if len(body["blocks"]) <= 60 and not cfg_info(body)["loops"] and body["kind"] != "Closure":
                t = self.rt(body["locals"][0][0])
                if isinstance(t, dict) and t.get("k") == "adt" and t["path"] == "core::result::Result" and \
                        len(t["args"]) == 2 and "t" in t["args"][1]:
                    e = self.rt(t["args"][1]["t"])
                    r = isinstance(e, dict) and e.get("k") == "adt" and e["path"].endswith("ValueTooBigError")
            body["_guard"] = r
        return r

    def call_body(self, st, body, args, dty, ret_k, site, callee=None, force=False):
        depth = len(st.frames)
        path = body["path"]
        stop = self.opts.get("stop_calls")
        if stop and path in stop:
            # comparison runs: record what is handed to this function and do not look inside
            st.notes["stopped"] = st.notes.get("stopped", ()) + ((path, tuple(args)),)
            rty = dty if dty is not None else body["locals"][0][0]
            return ret_k(st, self.materialize(st, rty, ("stopped", fresh_id())))
        if self.opts.get("len_sim"):
            r = self.len_sim_call(st, body, args, dty, ret_k, site)
            if r is not None:
                return r
        uf = self.opts.get("uf_calls")
        if uf and path in uf:
            # comparison runs: a callee shared by both siblings is an uninterpreted function of its (slice) arguments -
            # equal arguments give the *same* symbolic result in both runs
            ks = []
            for a in args:
                if isinstance(a, VRegion):
                    ks.append((a.origin, a.off.key(), a.len.key()))
                elif isinstance(a, VInt):
                    ks.append(a.lin.key())
                elif isinstance(a, VAdt) and a.fields is not None and len(a.fields) == 1 and isinstance(a.fields[0], VInt):
                    ks.append((a.path, a.fields[0].lin.key()))  # integer newtype (IpNumber, EtherType)
                elif isinstance(a, VAdt) and a.key is not None:
                    ks.append((a.path, a.key))  # an unmodified materialised value handed over by value
                elif isinstance(a, VRef):
                    tv = self.load(st, ("place", a.fid, a.local, a.projs))
                    if isinstance(tv, VAdt) and tv.key is not None:
                        ks.append((tv.path, tv.key))  # an unmodified materialised value: identified by its key
                    else:
                        ks = None
                        break
                else:
                    ks = None
                    break
            if ks is not None:
                rty = dty if dty is not None else body["locals"][0][0]
                st.notes["uf_args"] = st.notes.get("uf_args", ()) + tuple((path, a) for a in args)
                return ret_k(st, self.materialize(st, rty, ("uf", path, tuple(ks))))
        if not force and depth > self.max_depth and self.is_small_leaf(body):
            force = True
        if not force and depth == self.max_depth + 1 and self.is_guard_fn(body):
            force = True
        recursive = any(f.body is body for f in st.frames)
        if (depth > self.max_depth and not force) or recursive or depth > self.max_depth + 3:
            if body.get("unsafe"):
                self.oblige(st, "prec", "unsafe fn %s not inlined (depth)" % path, False, site, self.cur_sp)
            if not (self.rootset and any(f.body["path"] in self.rootset for f in st.frames[1:])):
                # (a chain that passes through another root is covered by that root's own analysis)
                self.opaque_calls.append((path, self.ctx(st), st.frames[-1].body["path"], site))
            return self.havoc_call(st, args, dty, ret_k, None, callee_body=body)
        if self.inv_targets is not None and st.frames and st.frames[-1].dirty:
            self.flush_dirty(st, st.frames[-1])
        self.new_frame(st, body, args, ret_k, site)
        return [st]

    def len_sim_call(self, st, body, args, dty, ret_k, site):
        """size comparison runs: serialisers are replaced by their *length* (lemmas proved elsewhere: to_bytes() emits
        header_len() bytes - C08 len; write_internal() hands out header_len() bytes on Ok - C12 announce)"""
        path = body["path"]
        base, _, name = path.rpartition("::")
        if name == "to_bytes" and body["arg_count"] == 1:
            hl = self.F.bodies.get(base + "::header_len") or self.F.bodies.get(base + "::packet_len")
            rty = dty if dty is not None else body["locals"][0][0]
            if hl is None or hl["arg_count"] != 1:
                return ret_k(st, self.materialize(st, rty, ("lsim", fresh_id())))

            def k(s2, n):
                v = self.materialize(s2, rty, ("lsim", fresh_id()))
                if isinstance(v, VVec) and isinstance(n, VInt):
                    v = VVec(v.kind, n.lin, v.cap, v.key, v.elems)
                return ret_k(s2, v)
            return self.call_body(st, hl, [args[0]], None, k, site, force=True)
        if name in ("update_checksum_ipv4", "update_checksum_ipv6"):
            # only the checksum field changes (irrelevant for sizes); may reject (payload too long for the pseudo header)
            rty = dty if dty is not None else body["locals"][0][0]
            outs = []
            s_ok = st.fork()
            okv = self.materialize(s_ok, rty, ("lsimc", fresh_id()))
            if isinstance(okv, VAdt) and okv.variant is None:
                okv = VAdt(okv.path, 0, (VTuple(()),), None, okv.ty)
            outs.extend(ret_k(s_ok, okv))
            ev = self.materialize(st, rty, ("lsimce", fresh_id()))
            if isinstance(ev, VAdt) and ev.variant is None:
                ev = VAdt(ev.path, 1, self.variant_fields(st, ev, 1), None, ev.ty)
            outs.extend(ret_k(st, ev))
            return outs
        if name == "write_internal" and base.endswith("Extensions"):
            hl = self.F.bodies.get(base + "::header_len")
            if hl is None:
                return None
            rty = dty if dty is not None else body["locals"][0][0]

            def k(s2, n):
                outs = []
                s_ok = s2.fork()
                if isinstance(n, VInt):
                    s_ok.notes["wlen"] = s_ok.notes.get("wlen", Lin.const(0)) + n.lin
                okv = self.materialize(s_ok, rty, ("lsimw", fresh_id()))
                if isinstance(okv, VAdt) and okv.variant is None:
                    okv = VAdt(okv.path, 0, (VTuple(()),), None, okv.ty)
                outs.extend(ret_k(s_ok, okv))
                ev = self.materialize(s2, rty, ("lsime", fresh_id()))
                if isinstance(ev, VAdt) and ev.variant is None:
                    ev = VAdt(ev.path, 1, self.variant_fields(s2, ev, 1), None, ev.ty)
                outs.extend(ret_k(s2, ev))
                return outs
            return self.call_body(st, hl, [args[0]], None, k, site, force=True)
        return None

    def call_value(self, st, fv, args, dty, ret_k, site):
        """call a closure / fn value with already-evaluated args (closure self first if closure)"""
        if isinstance(fv, VRef):
            tgt = self.load(st, ("place", fv.fid, fv.local, fv.projs))
            if isinstance(tgt, (VClosure, VFn)):
                fv = tgt
        if isinstance(fv, VClosure):
            body = self.F.bodies.get(fv.path)
            if body is not None:
                # closure body: _1 = closure env (maybe by ref), rest = args
                envty = self.rt(body["locals"][1][0])
                if isinstance(envty, dict) and envty["k"] == "ref":
                    oid = ("clo", fresh_id())
                    st.heap[oid] = fv
                    env = VRef(0, oid, (), envty["mut"])
                else:
                    env = fv
                return self.call_body(st, body, [env] + list(args), dty, ret_k, site, force=True)
        if isinstance(fv, VFn):
            body = self.F.bodies.get(fv.path)
            if body is not None:
                return self.call_body(st, body, list(args), dty, ret_k, site)
            m = self.models.lookup(fv.path, fv.path, {})
            if m is not None:
                call = CallInfo(self, st, st.frames[-1], None, {"decl": fv.path}, fv.path, fv.path, list(args), dty, ret_k,
                                site, self.cur_sp, self.cur_expn)
                r = m(call)
                if r is not NOT_HANDLED:
                    return r
            # tuple-variant / tuple-struct constructor used as a function value (`.map_err(Error::Io)`)
            if "::" in fv.path:
                par, last = fv.path.rsplit("::", 1)
                adt = self.F.adts.get(par)
                if adt is not None and adt["kind"] == "enum":
                    for vi, var in enumerate(adt["variants"]):
                        if var["name"] == last and len(var["fields"]) == len(args):
                            return ret_k(st, VAdt(par, vi, tuple(args), None, dty if isinstance(dty, dict) else None))
                adt = self.F.adts.get(fv.path)
                if adt is not None and adt["kind"] == "struct" and len(adt["variants"][0]["fields"]) == len(args):
                    return ret_k(st, VAdt(fv.path, 0, tuple(args), None, dty if isinstance(dty, dict) else None))
        return self.havoc_call(st, args, dty, ret_k, None)

    def havoc_call(self, st, args, dty, ret_k, t, callee_body=None):
        # any place reachable through a mutable reference argument is havocked
        for a in args:
            self.havoc_through(st, a)
        if dty is None and callee_body is not None:
            dty = callee_body["locals"][0][0]
        if dty is None:
            v = VOpaque(None, ("ret", fresh_id()))
        else:
            rid = fresh_id()
            if callee_body is not None and self.summaries:
                sm = self.summaries.get(callee_body["path"])
                if sm:
                    i = self.single_slice_param(callee_body)
                    if i is not None and i < len(args) and isinstance(args[i], VRegion):
                        al = dict(st.notes.get("alias", {}))
                        al[("ret", rid)] = (args[i], sm)
                        st.notes["alias"] = al
            v = self.materialize(st, dty, ("ret", rid))
            if callee_body is not None and self.summaries and isinstance(v, VInt):
                sm = self.summaries.get(callee_body["path"])
                rg = sm.get("__range__") if sm else None
                if rg:
                    st.add_ge0(v.lin - rg[0])
                    st.add_ge0(Lin.const(rg[1]) - v.lin)
        return ret_k(st, v)

    def havoc_through(self, st, a, depth=0):
        if isinstance(a, VRef) and a.mut:
            cur = ("place", a.fid, a.local, a.projs)
            old = self.load(st, cur)
            self.store(st, cur, self.havoc_value(st, old))
        elif isinstance(a, VRegion) and a.mut:
            self.havoc_region(st, a)
        elif isinstance(a, (VTuple, VClosure)) and depth < 3:
            for f in a.fields:
                self.havoc_through(st, f, depth + 1)
        elif isinstance(a, VAdt) and a.fields is not None and depth < 3:
            for f in a.fields:
                self.havoc_through(st, f, depth + 1)

    def havoc_value(self, st, old, ty=None):
        """a fresh unknown value of the same shape/type as old"""
        key = ("hv", fresh_id())
        if isinstance(old, VInt):
            lo, hi = static_bounds(old.lin)
            # use the declared type if we know it; else fall back on widest bounds of old
            return VInt(Lin.atom(reg_atom(("v", key), lo if lo is not None and lo >= 0 else None, None)))
        if isinstance(old, VBool):
            a = reg_atom(("v", key), 0, 1)
            return VBool(("ge", Lin.atom(a) - 1))
        if isinstance(old, VAdt):
            if old.ty is not None:
                return self.materialize(st, old.ty, key, assume_inv=True)
            if old.fields is not None and self.F.adts.get(old.path, {}).get("kind") == "struct":
                return VAdt(old.path, old.variant, tuple(self.havoc_value(st, f) for f in old.fields), key, None)
            return VOpaque(None, key)
        if isinstance(old, VTuple):
            return VTuple([self.havoc_value(st, f) for f in old.fields])
        if isinstance(old, VArray):
            if old.init is not None:
                ia = reg_atom(("initlen", key), 0, old.n if old.n is not None else I64MAX)
                return VArray(None, old.n, key, old.ety, init=Lin.atom(ia))
            return VArray(None, old.n, key, old.ety)
        if isinstance(old, VVec):
            cap = old.cap
            hi = cap.c if cap.is_const() else I64MAX
            ln = reg_atom(("veclen", key), 0, hi)
            if not cap.is_const():
                cp = reg_atom(("cap", key), 0, I64MAX)
                st.add_ge0(Lin.atom(cp) - Lin.atom(ln))
                cap = Lin.atom(cp)
            return VVec(old.kind, Lin.atom(ln), cap, key, old.elems)
        if isinstance(old, VRegion):
            origin = ("s", key)
            ln = reg_atom(("len", origin), 0, I64MAX)
            return VRegion(origin, Lin.const(0), Lin.atom(ln), old.mut)
        if isinstance(old, (VRef, VFn, VClosure)):
            return old
        return VOpaque(None, key)

    # ------------------------------------------------------------------ loops
    def handle_loop(self, st, fr, info):
        from .loops import analyze_loop
        return analyze_loop(self, st, fr, info)


class VByteRef:
    """&u8 / &mut u8 pointing into a region"""
    __slots__ = ("origin", "off", "mut")

    def __init__(self, origin, off, mut=False):
        self.origin = origin
        self.off = off
        self.mut = mut

    def __repr__(self):
        return "ByteRef(%r,%s)" % (self.origin, show_lin(self.off))


NOT_HANDLED = object()

# foreign structs whose fields we track structurally
STRUCTURAL_FOREIGN = {
    "core::ops::Range", "core::ops::range::Range", "core::ops::RangeFrom", "core::ops::RangeTo",
    "core::ops::range::RangeFrom", "core::ops::range::RangeTo", "core::ops::RangeInclusive",
    "core::ops::RangeFull", "core::ops::range::RangeFull", "core::ops::range::RangeToInclusive",
    "core::ops::RangeToInclusive",
}


class CallInfo:
    __slots__ = ("I", "st", "fr", "term", "callee", "path", "decl", "args", "dty", "ret_k", "site", "sp", "expn")

    def __init__(self, I, st, fr, term, callee, path, decl, args, dty, ret_k, site, sp, expn):
        self.I = I
        self.st = st
        self.fr = fr
        self.term = term
        self.callee = callee
        self.path = path
        self.decl = decl
        self.args = args
        self.dty = dty
        self.ret_k = ret_k
        self.site = site
        self.sp = sp
        self.expn = expn

    def ret(self, v, st=None):
        return self.ret_k(st if st is not None else self.st, v)

    def fresh(self, tag="ret"):
        return self.I.materialize(self.st, self.dty, (tag, fresh_id()))

    def oblige(self, kind, desc, proved, detail="", trivial=False):
        self.I.cur_site = self.site
        self.I.cur_sp = self.sp
        self.I.oblige(self.st, kind, desc, proved, self.site, self.sp, detail, trivial, expn=self.expn)

    def targ(self, i):
        """i-th type generic argument of the resolved callee (type object)"""
        a = self.callee.get("res_args") or self.callee.get("decl_args") or []
        if i < len(a):
            if "t" in a[i]:
                return self.I.rt(a[i]["t"])
            return a[i]
        return None
