"""Facts / E1 pipeline with content-addressed caching under /verif/.cache."""
import os
import sys
import json
import time
import glob
import fcntl
import pickle
import shutil
import hashlib
import tempfile
import subprocess

VERIF = os.path.dirname(os.path.dirname(os.path.abspath(__file__)))
REPO = os.environ.get("VERIF_REPO", "/repo")
CACHE = os.path.join(VERIF, ".cache")
DRIVER_DIR = os.path.join(VERIF, "tools", "mirfacts")
DRIVER = os.path.join(DRIVER_DIR, "target", "debug", "mirfacts")

CONFIGS = {
    "std": [],
    "alloc": ["--no-default-features", "--features", "alloc"],
    "core": ["--no-default-features"],
}


def log(*a):
    print("[verif]", *a, file=sys.stderr, flush=True)


def tree_hash():
    h = hashlib.sha256()
    files = [os.path.join(REPO, "Cargo.toml"), os.path.join(REPO, "Cargo.lock"),
             os.path.join(REPO, "etherparse", "Cargo.toml")]
    for root, dirs, fs in os.walk(os.path.join(REPO, "etherparse", "src")):
        dirs.sort()
        for f in sorted(fs):
            files.append(os.path.join(root, f))
    for f in files:
        try:
            with open(f, "rb") as fh:
                data = fh.read()
        except OSError:
            data = b"<missing>"
        h.update(os.path.relpath(f, REPO).encode())
        h.update(b"\0")
        h.update(data)
        h.update(b"\0")
    return h.hexdigest()[:24]


E1_FILES = ["absint.py", "models.py", "loops.py", "inv.py", "crate.py", "lin.py", "values.py", "facts.py", "axioms.py"]


def engine_hash():
    """hash of everything the cached E1 result depends on (not the rule modules that only read it)"""
    h = hashlib.sha256()
    files = [os.path.join(VERIF, "engine", f) for f in E1_FILES] + [os.path.join(DRIVER_DIR, "src", "main.rs")]
    for f in files:
        with open(f, "rb") as fh:
            h.update(fh.read())
    try:
        with open(os.path.join(VERIF, "axioms.json")) as fh:
            h.update(json.dumps(json.load(fh).get("trusted_construction_contexts", []), sort_keys=True).encode())
    except OSError:
        pass
    return h.hexdigest()[:12]


class Lock:
    def __init__(self, name):
        os.makedirs(CACHE, exist_ok=True)
        self.path = os.path.join(CACHE, name + ".lock")

    def __enter__(self):
        self.f = open(self.path, "w")
        fcntl.flock(self.f, fcntl.LOCK_EX)
        return self

    def __exit__(self, *a):
        fcntl.flock(self.f, fcntl.LOCK_UN)
        self.f.close()


def ensure_driver():
    if os.path.exists(DRIVER):
        src = os.path.join(DRIVER_DIR, "src", "main.rs")
        if os.path.getmtime(DRIVER) >= os.path.getmtime(src):
            return
    with Lock("driver"):
        log("building mirfacts driver")
        env = dict(os.environ, CARGO_NET_OFFLINE="true")
        r = subprocess.run(["cargo", "build", "--offline"], cwd=DRIVER_DIR, env=env, stdout=subprocess.PIPE,
                           stderr=subprocess.STDOUT, text=True)
        if r.returncode != 0 or not os.path.exists(DRIVER):
            sys.stderr.write(r.stdout)
            raise SystemExit(2)


def sysroot():
    r = subprocess.run(["rustc", "+nightly", "--print", "sysroot"], stdout=subprocess.PIPE, text=True)
    return r.stdout.strip()


def facts_path(config="std", th=None):
    th = th or tree_hash()
    with open(os.path.join(DRIVER_DIR, "src", "main.rs"), "rb") as fh:
        dh = hashlib.sha256(fh.read()).hexdigest()[:12]
    return os.path.join(CACHE, "facts-%s-%s-%s.json" % (th, dh, config))


def ensure_facts(config="std", th=None):
    """export MIR facts of /repo's working tree for the given feature configuration"""
    th = th or tree_hash()
    out = facts_path(config, th)
    if os.path.exists(out):
        return out
    ensure_driver()
    with Lock("facts-" + th + config):
        if os.path.exists(out):
            return out
        t0 = time.time()
        tdir = tempfile.mkdtemp(prefix="verif-target-")
        odir = tempfile.mkdtemp(prefix="verif-facts-")
        try:
            env = dict(os.environ)
            env.update({
                "LD_LIBRARY_PATH": os.path.join(sysroot(), "lib") + ":" + env.get("LD_LIBRARY_PATH", ""),
                "RUSTFLAGS": "-Zmir-opt-level=0 -Awarnings -Zub-checks=no",
                "RUSTC_WORKSPACE_WRAPPER": DRIVER,
                "MIRFACTS_OUT": odir,
                "MIRFACTS_CONFIG": config,
                "MIRFACTS_CRATES": "etherparse",
                "CARGO_TARGET_DIR": tdir,
                "CARGO_NET_OFFLINE": "true",
            })
            cmd = ["cargo", "+nightly", "check", "--offline", "--lib"] + CONFIGS[config]
            r = subprocess.run(cmd, cwd=os.path.join(REPO, "etherparse"), env=env, stdout=subprocess.PIPE,
                               stderr=subprocess.STDOUT, text=True)
            produced = os.path.join(odir, "etherparse.json")
            if r.returncode != 0 or not os.path.exists(produced):
                sys.stderr.write(r.stdout[-6000:])
                log("fact export failed (the repository does not compile or the exporter broke)")
                raise SystemExit(2)
            os.makedirs(CACHE, exist_ok=True)
            tmp = out + ".tmp%d" % os.getpid()
            shutil.copyfile(produced, tmp)
            os.rename(tmp, out)
            log("facts[%s] exported in %.1fs" % (config, time.time() - t0))
        finally:
            shutil.rmtree(tdir, ignore_errors=True)
            shutil.rmtree(odir, ignore_errors=True)
    prune_cache()
    return out


def prune_cache(keep=6):
    """keep the cache directory small: drop the oldest fact / e1 files"""
    try:
        files = [os.path.join(CACHE, f) for f in os.listdir(CACHE) if f.startswith(("facts-", "e1-"))]
        files.sort(key=lambda p: os.path.getmtime(p), reverse=True)
        for p in files[keep * 2:]:
            try:
                os.remove(p)
            except OSError:
                pass
    except OSError:
        pass


_FACTS = {}


def load_facts(config="std"):
    from .facts import Facts
    p = ensure_facts(config)
    if p not in _FACTS:
        _FACTS[p] = Facts(p)
    return _FACTS[p]


def e1_path(config="std", tier="quick", th=None):
    th = th or tree_hash()
    return os.path.join(CACHE, "e1-%s-%s-%s-%s.pkl" % (th, engine_hash(), config, tier))


def ensure_e1(config="std", tier="quick"):
    """run (or load) the whole-crate abstract interpretation"""
    th = tree_hash()
    out = e1_path(config, tier, th)
    if os.path.exists(out):
        with open(out, "rb") as f:
            return pickle.load(f)
    with Lock("e1-" + th + config + tier):
        if os.path.exists(out):
            with open(out, "rb") as f:
                return pickle.load(f)
        F = load_facts(config)
        from .crate import analyze_crate, aggregate
        from .axioms import load_axioms
        t0 = time.time()
        depth = 2 if tier == "quick" else 3
        budget = 20000 if tier == "quick" else 60000
        res = analyze_crate(F, depth=depth, budget=budget, log=log, axioms=load_axioms())
        sites = aggregate(F, res["results"], res["roots"])
        events = []
        for r in res["results"]:
            for e in r["events"]:
                events.append((r["root"],) + tuple(e))
        data = {
            "sites": sites,
            "inv": {sp: {"top": bool(v.get("top")), "disjuncts": [[l.key() for l in d] for d in v["disjuncts"]],
                         "atoms": v.get("atoms", {})}
                    for sp, v in res["inv"].items()},
            "events": events,
            "roots": res["roots"],
            "summaries": res.get("summaries", {}),
            "stable": res["stable"],
            "never_constructed": res["never_constructed"],
            "errors": [(r["root"], r["err"]) for r in res["results"] if r["err"]],
            "wall": time.time() - t0,
            "bodies": len(F.body_list),
            "config": config,
            "tier": tier,
            "steps": sum(r["steps"] for r in res["results"]),
        }
        tmp = out + ".tmp%d" % os.getpid()
        with open(tmp, "wb") as f:
            pickle.dump(data, f)
        os.rename(tmp, out)
        log("E1[%s,%s] done in %.1fs" % (config, tier, data["wall"]))
    prune_cache()
    return data
