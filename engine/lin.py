"""Linear expressions over structural atoms, atom metadata, Fourier-Motzkin entailment.

An atom is a hashable tuple (structural key).  A Lin is an immutable mapping atom->int plus an int
constant.  All reasoning is over the integers.
"""
from math import gcd
from functools import reduce

# ---------------------------------------------------------------------------------------------
# atom metadata: static bounds (lo, hi) and may-be-set bit mask (for non-negative atoms)
ATOM_LO = {}
ATOM_HI = {}
ATOM_MASK = {}

I64MAX = (1 << 63) - 1
U64MAX = (1 << 64) - 1


def reg_atom(key, lo, hi, mask=None):
    if key not in ATOM_LO:
        ATOM_LO[key] = lo
        ATOM_HI[key] = hi
        if mask is None and lo is not None and lo >= 0 and hi is not None:
            mask = (1 << hi.bit_length()) - 1
        ATOM_MASK[key] = mask
    return key


class Lin:
    __slots__ = ("t", "c", "_h")

    def __init__(self, terms=None, c=0):
        # terms: dict atom->coef (non-zero)
        self.t = terms if terms else {}
        self.c = c
        self._h = None

    @staticmethod
    def const(c):
        return Lin(None, int(c))

    @staticmethod
    def atom(a, k=1):
        return Lin({a: k}, 0)

    def is_const(self):
        return not self.t

    def const_val(self):
        return self.c if not self.t else None

    def single_atom(self):
        """if self == 1*atom + 0 return atom"""
        if self.c == 0 and len(self.t) == 1:
            (a, k), = self.t.items()
            if k == 1:
                return a
        return None

    def __add__(self, o):
        if isinstance(o, int):
            return Lin(self.t, self.c + o)
        t = dict(self.t)
        for a, k in o.t.items():
            v = t.get(a, 0) + k
            if v:
                t[a] = v
            else:
                t.pop(a, None)
        return Lin(t, self.c + o.c)

    def __neg__(self):
        return Lin({a: -k for a, k in self.t.items()}, -self.c)

    def __sub__(self, o):
        if isinstance(o, int):
            return Lin(self.t, self.c - o)
        return self + (-o)

    def scale(self, k):
        if k == 0:
            return Lin()
        return Lin({a: v * k for a, v in self.t.items()}, self.c * k)

    def key(self):
        """canonical hashable form"""
        if self._h is None:
            if not self.t:
                self._h = self.c
            else:
                self._h = (tuple(sorted(self.t.items(), key=lambda x: repr(x[0]))), self.c)
        return self._h

    def __eq__(self, o):
        return isinstance(o, Lin) and self.c == o.c and self.t == o.t

    def __hash__(self):
        return hash(self.key())

    def atoms(self):
        return self.t.keys()

    def __repr__(self):
        return show_lin(self)


def lin_from_key(k):
    if isinstance(k, int):
        return Lin.const(k)
    terms, c = k
    return Lin(dict(terms), c)


def show_atom(a):
    if not isinstance(a, tuple):
        return str(a)
    k = a[0]
    if k == "len":
        return "len(%s)" % show_atom(a[1])
    if k == "byte":
        return "byte(%s,%s)" % (show_atom(a[1]), show_key(a[2]))
    if k in ("and", "or", "xor", "shr", "shl", "mul", "div", "rem", "trunc", "wrap", "min", "max", "not"):
        return "%s(%s)" % (k, ",".join(show_key(x) for x in a[1:]))
    return "%s(%s)" % (k, ",".join(show_atom(x) if isinstance(x, tuple) else str(x) for x in a[1:]))


def show_key(k):
    if isinstance(k, int):
        return str(k)
    if isinstance(k, tuple) and len(k) == 2 and isinstance(k[0], tuple) and isinstance(k[1], int) and (
            not k[0] or isinstance(k[0][0], tuple) and len(k[0][0]) == 2 and isinstance(k[0][0][1], int)):
        try:
            return show_lin(lin_from_key(k))
        except Exception:
            return repr(k)
    return show_atom(k)


def show_lin(l):
    parts = []
    for a, k in sorted(l.t.items(), key=lambda x: repr(x[0])):
        s = show_atom(a)
        if k == 1:
            parts.append("+" + s)
        elif k == -1:
            parts.append("-" + s)
        else:
            parts.append("%+d*%s" % (k, s))
    if l.c or not parts:
        parts.append("%+d" % l.c)
    s = "".join(parts)
    return s[1:] if s.startswith("+") else s


# ---------------------------------------------------------------------------------------------
# interval evaluation of a Lin using static atom bounds only


def static_bounds(l):
    lo = hi = l.c
    for a, k in l.t.items():
        alo = ATOM_LO.get(a)
        ahi = ATOM_HI.get(a)
        if k > 0:
            lo = None if (lo is None or alo is None) else lo + k * alo
            hi = None if (hi is None or ahi is None) else hi + k * ahi
        else:
            lo = None if (lo is None or ahi is None) else lo + k * ahi
            hi = None if (hi is None or alo is None) else hi + k * alo
    return lo, hi


# ---------------------------------------------------------------------------------------------
# Fourier-Motzkin.  A constraint is (terms dict, c) meaning sum + c >= 0.


def _norm(t, c):
    if not t:
        return t, c
    g = reduce(gcd, (abs(v) for v in t.values()))
    if g > 1:
        t = {a: v // g for a, v in t.items()}
        c = c // g  # floor: integer tightening
    return t, c


class Budget(Exception):
    pass


def fm_unsat(cons, max_cons=600):
    """cons: list of (dict, c) each meaning >= 0.  Returns True if provably unsatisfiable over Z."""
    cur = []
    seen = set()
    for t, c in cons:
        t, c = _norm(dict(t), c)
        if not t:
            if c < 0:
                return True
            continue
        k = (frozenset(t.items()), c)
        if k in seen:
            continue
        seen.add(k)
        cur.append((t, c))
    while True:
        # collect vars
        pos = {}
        neg = {}
        for i, (t, c) in enumerate(cur):
            for a, v in t.items():
                (pos if v > 0 else neg).setdefault(a, []).append(i)
        allv = set(pos) | set(neg)
        if not allv:
            return False
        # vars appearing with only one sign: drop their constraints (cannot contribute to contradiction)
        onesided = [a for a in allv if a not in pos or a not in neg]
        if onesided:
            drop = set()
            for a in onesided:
                drop.update(pos.get(a, ()))
                drop.update(neg.get(a, ()))
            cur = [x for i, x in enumerate(cur) if i not in drop]
            if not cur:
                return False
            continue
        # choose var minimizing product
        best = min(allv, key=lambda a: (len(pos[a]) * len(neg[a]) - len(pos[a]) - len(neg[a]), repr(a)))
        P = pos[best]
        N = neg[best]
        keep = [x for i, x in enumerate(cur) if best not in x[0]]
        newc = []
        for i in P:
            tp, cp = cur[i]
            kp = tp[best]
            for j in N:
                tn, cn = cur[j]
                kn = -tn[best]
                # kn*P + kp*N eliminates best
                t = {}
                for a, v in tp.items():
                    if a is not best and a != best:
                        t[a] = v * kn
                for a, v in tn.items():
                    if a != best:
                        nv = t.get(a, 0) + v * kp
                        if nv:
                            t[a] = nv
                        else:
                            t.pop(a, None)
                c = cp * kn + cn * kp
                t, c = _norm(t, c)
                if not t:
                    if c < 0:
                        return True
                    continue
                newc.append((t, c))
        cur = keep
        seen = set((frozenset(t.items()), c) for t, c in cur)
        for t, c in newc:
            k = (frozenset(t.items()), c)
            if k not in seen:
                seen.add(k)
                cur.append((t, c))
        if len(cur) > max_cons:
            # keep it sound: give up (cannot prove unsat)
            return False


def relevant(cons, seed_atoms, extra_rounds=8):
    """select constraints transitively connected to seed atoms"""
    atoms = set(seed_atoms)
    chosen = [False] * len(cons)
    changed = True
    rounds = 0
    while changed and rounds < extra_rounds:
        changed = False
        rounds += 1
        for i, (t, c) in enumerate(cons):
            if chosen[i]:
                continue
            if any(a in atoms for a in t):
                chosen[i] = True
                for a in t:
                    if a not in atoms:
                        atoms.add(a)
                        changed = True
    return [cons[i] for i in range(len(cons)) if chosen[i]], atoms


def entails_ge0(facts, goal, neqs=()):
    """facts: iterable of Lin (each >= 0).  goal: Lin.  True if facts |= goal >= 0."""
    # quick: static bounds
    lo, hi = static_bounds(goal)
    if lo is not None and lo >= 0:
        return True
    cons = [(f.t, f.c) for f in facts]
    # negated goal: -goal - 1 >= 0
    ng = (-goal) - 1
    sel, atoms = relevant(cons, set(goal.atoms()))
    # add static bounds for all atoms involved
    for a in atoms:
        lo = ATOM_LO.get(a)
        hi = ATOM_HI.get(a)
        if lo is not None:
            sel.append(({a: 1}, -lo))
        if hi is not None:
            sel.append(({a: -1}, hi))
    sel.append((ng.t, ng.c))
    return fm_unsat(sel)


def sup_of(facts, expr, limit_iter=80):
    """least upper bound of expr under facts (integer), or None if unbounded / unknown.
    Binary search using entailment."""
    lo, hi = static_bounds(expr)
    # find some upper bound by doubling
    if hi is None:
        ub = 1
        ok = False
        for _ in range(70):
            if entails_ge0(facts, Lin.const(ub) - expr):
                ok = True
                break
            ub *= 2
        if not ok:
            return None
        hi = ub
    else:
        if not entails_ge0(facts, Lin.const(hi) - expr):
            return None
    if lo is None:
        lo = -(1 << 70)
    # smallest u in [lo,hi] with facts |= expr <= u
    a, b = lo, hi
    it = 0
    while a < b and it < limit_iter:
        it += 1
        m = (a + b) // 2
        if entails_ge0(facts, Lin.const(m) - expr):
            b = m
        else:
            a = m + 1
    return b


def inf_of(facts, expr):
    s = sup_of(facts, -expr)
    return None if s is None else -s
