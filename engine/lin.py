"""Linear expressions over structural atoms, atom metadata, Fourier-Motzkin entailment.

An atom is a hashable tuple (structural key).  A Lin is an immutable mapping atom->int plus an int
constant.  All reasoning is over the integers.
"""
from math import gcd
from functools import reduce

# ---------------------------------------------------------------------------------------------
# atom metadata: static bounds (lo, hi) and may-be-set bit mask (for non-negative atoms)
ATOM_LO = {}
ATOM_HI = {}
ATOM_MASK = {}

I64MAX = (1 << 63) - 1
U64MAX = (1 << 64) - 1


def reg_atom(key, lo, hi, mask=None):
    if key not in ATOM_LO:
        ATOM_LO[key] = lo
        ATOM_HI[key] = hi
        if mask is None and lo is not None and lo >= 0 and hi is not None:
            mask = (1 << hi.bit_length()) - 1
        ATOM_MASK[key] = mask
    return key


class Lin:
    __slots__ = ("t", "c", "_h")

    def __init__(self, terms=None, c=0):
        # terms: dict atom->coef (non-zero)
        self.t = terms if terms else {}
        self.c = c
        self._h = None

    @staticmethod
    def const(c):
        return Lin(None, int(c))

    @staticmethod
    def atom(a, k=1):
        return Lin({a: k}, 0)

    def is_const(self):
        return not self.t

    def const_val(self):
        return self.c if not self.t else None

    def single_atom(self):
        """if self == 1*atom + 0 return atom"""
        if self.c == 0 and len(self.t) == 1:
            (a, k), = self.t.items()
            if k == 1:
                return a
        return None

    def __add__(self, o):
        if isinstance(o, int):
            return Lin(self.t, self.c + o)
        t = dict(self.t)
        for a, k in o.t.items():
            v = t.get(a, 0) + k
            if v:
                t[a] = v
            else:
                t.pop(a, None)
        return Lin(t, self.c + o.c)

    def __neg__(self):
        return Lin({a: -k for a, k in self.t.items()}, -self.c)

    def __sub__(self, o):
        if isinstance(o, int):
            return Lin(self.t, self.c - o)
        return self + (-o)

    def scale(self, k):
        if k == 0:
            return Lin()
        return Lin({a: v * k for a, v in self.t.items()}, self.c * k)

    def key(self):
        """canonical hashable form"""
        if self._h is None:
            if not self.t:
                self._h = self.c
            else:
                self._h = (tuple(sorted(self.t.items(), key=lambda x: repr(x[0]))), self.c)
        return self._h

    def __eq__(self, o):
        return isinstance(o, Lin) and self.c == o.c and self.t == o.t

    def __hash__(self):
        return hash(self.key())

    def atoms(self):
        return self.t.keys()

    def __repr__(self):
        return show_lin(self)


def lin_from_key(k):
    if isinstance(k, int):
        return Lin.const(k)
    terms, c = k
    return Lin(dict(terms), c)


def show_atom(a):
    if not isinstance(a, tuple):
        return str(a)
    k = a[0]
    if k == "len":
        return "len(%s)" % show_atom(a[1])
    if k == "byte":
        return "byte(%s,%s)" % (show_atom(a[1]), show_key(a[2]))
    if k in ("and", "or", "xor", "shr", "shl", "mul", "div", "rem", "trunc", "wrap", "min", "max", "not"):
        return "%s(%s)" % (k, ",".join(show_key(x) for x in a[1:]))
    return "%s(%s)" % (k, ",".join(show_atom(x) if isinstance(x, tuple) else str(x) for x in a[1:]))


def show_key(k):
    if isinstance(k, int):
        return str(k)
    if isinstance(k, tuple) and len(k) == 2 and isinstance(k[0], tuple) and isinstance(k[1], int) and (
            not k[0] or isinstance(k[0][0], tuple) and len(k[0][0]) == 2 and isinstance(k[0][0][1], int)):
        try:
            return show_lin(lin_from_key(k))
        except Exception:
            return repr(k)
    return show_atom(k)


def show_lin(l):
    parts = []
    for a, k in sorted(l.t.items(), key=lambda x: repr(x[0])):
        s = show_atom(a)
        if k == 1:
            parts.append("+" + s)
        elif k == -1:
            parts.append("-" + s)
        else:
            parts.append("%+d*%s" % (k, s))
    if l.c or not parts:
        parts.append("%+d" % l.c)
    s = "".join(parts)
    return s[1:] if s.startswith("+") else s


# ---------------------------------------------------------------------------------------------
# interval evaluation of a Lin using static atom bounds only


def static_bounds(l):
    lo = hi = l.c
    for a, k in l.t.items():
        alo = ATOM_LO.get(a)
        ahi = ATOM_HI.get(a)
        if k > 0:
            lo = None if (lo is None or alo is None) else lo + k * alo
            hi = None if (hi is None or ahi is None) else hi + k * ahi
        else:
            lo = None if (lo is None or ahi is None) else lo + k * ahi
            hi = None if (hi is None or alo is None) else hi + k * alo
    return lo, hi


# ---------------------------------------------------------------------------------------------
# Fourier-Motzkin.  A constraint is (terms dict, c) meaning sum + c >= 0.


def _norm(t, c):
    if not t:
        return t, c
    g = reduce(gcd, (abs(v) for v in t.values()))
    if g > 1:
        t = {a: v // g for a, v in t.items()}
        c = c // g  # floor: integer tightening
    return t, c


class Budget(Exception):
    pass


def _subst_equalities(cons):
    """exact (integrality preserving) elimination: for an equality with a unit-coefficient variable,
    substitute that variable everywhere.  cons: list of (dict int->int, c)."""
    for _ in range(16):
        index = {}
        for i, (t, c) in enumerate(cons):
            if t:
                index.setdefault((frozenset(t.items()), c), i)
        found = None
        for i, (t, c) in enumerate(cons):
            if not t:
                continue
            neg = (frozenset((a, -v) for a, v in t.items()), -c)
            j = index.get(neg)
            if j is None or j == i:
                continue
            units = [a for a, v in t.items() if v == 1 or v == -1]
            if not units:
                continue
            found = (i, j, max(units))  # later interned atoms (fresh values) first
            break
        if found is None:
            break
        i, j, x = found
        t, c = cons[i]
        k = t[x]
        rest = {a: -k * v for a, v in t.items() if a != x}
        rc = -k * c
        new = []
        for idx, (t2, c2) in enumerate(cons):
            if idx == i or idx == j:
                continue
            if x in t2:
                m = t2[x]
                nt = {a: v for a, v in t2.items() if a != x}
                for a, v in rest.items():
                    nv = nt.get(a, 0) + m * v
                    if nv:
                        nt[a] = nv
                    else:
                        nt.pop(a, None)
                new.append((nt, c2 + m * rc))
            else:
                new.append((t2, c2))
        cons = new
    return cons


def fm_unsat(cons, max_cons=600):
    """cons: list of (dict atom->coef, c) each meaning >= 0.  True if provably unsatisfiable over Z."""
    # intern atoms as small ints (hashing nested tuples repeatedly is expensive)
    ids = {}
    icons = []
    for t, c in cons:
        nt = {}
        for a, v in t.items():
            i = ids.get(a)
            if i is None:
                i = ids[a] = len(ids)
            nt[i] = v
        icons.append((nt, c))
    icons = _subst_equalities(icons)
    cur = []
    seen = set()
    for t, c in icons:
        t, c = _norm(t, c)
        if not t:
            if c < 0:
                return True
            continue
        k = (frozenset(t.items()), c)
        if k in seen:
            continue
        seen.add(k)
        cur.append((t, c))
    while True:
        pos = {}
        neg = {}
        for i, (t, c) in enumerate(cur):
            for a, v in t.items():
                (pos if v > 0 else neg).setdefault(a, []).append(i)
        allv = set(pos) | set(neg)
        if not allv:
            return False
        onesided = [a for a in allv if a not in pos or a not in neg]
        if onesided:
            drop = set()
            for a in onesided:
                drop.update(pos.get(a, ()))
                drop.update(neg.get(a, ()))
            cur = [x for i, x in enumerate(cur) if i not in drop]
            if not cur:
                return False
            continue
        best = min(allv, key=lambda a: (len(pos[a]) * len(neg[a]) - len(pos[a]) - len(neg[a]), a))
        P = pos[best]
        N = neg[best]
        if len(P) * len(N) > 4000:
            return False
        involved = set(P) | set(N)
        keep = [x for i, x in enumerate(cur) if i not in involved]
        newc = []
        for i in P:
            tp, cp = cur[i]
            kp = tp[best]
            for j in N:
                tn, cn = cur[j]
                kn = -tn[best]
                t = {}
                for a, v in tp.items():
                    if a != best:
                        t[a] = v * kn
                for a, v in tn.items():
                    if a != best:
                        nv = t.get(a, 0) + v * kp
                        if nv:
                            t[a] = nv
                        else:
                            t.pop(a, None)
                c = cp * kn + cn * kp
                t, c = _norm(t, c)
                if not t:
                    if c < 0:
                        return True
                    continue
                newc.append((t, c))
        for i in involved:
            t, c = cur[i]
            seen.discard((frozenset(t.items()), c))
        cur = keep
        for t, c in newc:
            k = (frozenset(t.items()), c)
            if k not in seen:
                seen.add(k)
                cur.append((t, c))
        if len(cur) > max_cons:
            return False


def relevant(cons, seed_atoms, extra_rounds=8):
    """select constraints transitively connected to seed atoms"""
    atoms = set(seed_atoms)
    chosen = [False] * len(cons)
    changed = True
    rounds = 0
    while changed and rounds < extra_rounds:
        changed = False
        rounds += 1
        for i, (t, c) in enumerate(cons):
            if chosen[i]:
                continue
            if any(a in atoms for a in t):
                chosen[i] = True
                for a in t:
                    if a not in atoms:
                        atoms.add(a)
                        changed = True
    return [cons[i] for i in range(len(cons)) if chosen[i]], atoms


_DEFS = {}


def ensure_registered(a):
    """register static bounds of an atom from its structure when nothing is known yet"""
    if a in ATOM_LO and (ATOM_LO[a] is not None or ATOM_HI[a] is not None):
        return
    if not (isinstance(a, tuple) and a):
        return
    k = a[0]
    lo = hi = m = None
    if k == "byte":
        lo, hi, m = 0, 255, 255
    elif k in ("len", "veclen", "cap"):
        lo, hi = 0, I64MAX
    elif k == "and" and len(a) == 3 and isinstance(a[2], int):
        lo, hi, m = 0, a[2], a[2]
    elif k == "shr" and len(a) == 3 and isinstance(a[2], int):
        try:
            x = lin_from_key(a[1])
            for b in x.atoms():
                ensure_registered(b)
            xlo, xhi = static_bounds(x)
            if xlo is not None and xlo >= 0 and xhi is not None:
                lo, hi = xlo >> a[2], xhi >> a[2]
        except Exception:
            pass
    if lo is not None or hi is not None:
        ATOM_LO[a] = lo
        ATOM_HI[a] = hi
        if m is None and lo is not None and lo >= 0 and hi is not None:
            m = (1 << hi.bit_length()) - 1
        ATOM_MASK[a] = m


def atom_defs(a):
    """definitional facts (list of (dict,c) >= 0) of a structured atom; valid in every state"""
    d = _DEFS.get(a)
    if d is not None:
        return d
    d = []
    if isinstance(a, tuple) and a:
        k = a[0]
        try:
            if k in ("and", "shr", "div", "rem") and len(a) == 3:
                ensure_registered(a)
                for b_ in lin_from_key(a[1]).atoms():
                    ensure_registered(b_)
            if k == "and" and len(a) == 3 and isinstance(a[2], int):
                x = lin_from_key(a[1])
                c = a[2]
                lo, hi = static_bounds(x)
                if lo is not None and lo >= 0:
                    A = Lin.atom(a)
                    d.append(x - A)
                    if c & (c + 1) == 0:
                        kb = c.bit_length()
                        q = reg_atom(("shr", a[1], kb), 0, None if hi is None else hi >> kb,
                                     None if hi is None else (1 << (hi >> kb).bit_length()) - 1)
                        e = x - A - Lin.atom(q).scale(c + 1)
                        d.append(e)
                        d.append(-e)
                    bits = [b for b in range(c.bit_length()) if (c >> b) & 1]
                    if 2 <= len(bits) <= 4:
                        e = A
                        for b in bits:
                            ba = reg_atom(("and", a[1], 1 << b), 0, 1 << b, 1 << b)
                            e = e - Lin.atom(ba)
                        d.append(e)
                        d.append(-e)
            elif k == "shr" and len(a) == 3 and isinstance(a[2], int):
                x = lin_from_key(a[1])
                p = 1 << a[2]
                lo, hi = static_bounds(x)
                if lo is not None and lo >= 0:
                    A = Lin.atom(a)
                    d.append(x - A.scale(p))
                    d.append(A.scale(p) + (p - 1) - x)
            elif k == "div" and len(a) == 3 and isinstance(a[2], int):
                x = lin_from_key(a[1])
                p = a[2]
                A = Lin.atom(a)
                d.append(x - A.scale(p))
                d.append(A.scale(p) + (p - 1) - x)
            elif k == "rem" and len(a) == 3 and isinstance(a[2], int):
                x = lin_from_key(a[1])
                c = a[2]
                lo, hi = static_bounds(x)
                q = reg_atom(("div", a[1], c), 0, None if hi is None else hi // c)
                e = x - Lin.atom(a) - Lin.atom(q).scale(c)
                d.append(e)
                d.append(-e)
        except Exception:
            d = []
    d = [(l.t, l.c) for l in d]
    _DEFS[a] = d
    return d


def select_with_defs(cons, seed_atoms):
    """relevant constraints + definitional facts + static bounds for the atom closure of seed"""
    seeds = set(seed_atoms)
    defs = []
    done = set()
    sel, atoms = [], set()
    for _ in range(4):
        sel, atoms = relevant(list(cons) + defs, seeds)
        new = [a for a in (set(atoms) | seeds) if a not in done]
        if not new:
            break
        added = False
        for a in new:
            done.add(a)
            dd = atom_defs(a)
            if dd:
                defs.extend(dd)
                added = True
        if not added:
            break
    sel = list(sel)
    for a in set(atoms) | seeds:
        lo = ATOM_LO.get(a)
        hi = ATOM_HI.get(a)
        if lo is not None:
            sel.append(({a: 1}, -lo))
        if hi is not None:
            sel.append(({a: -1}, hi))
    return sel, atoms


def quick_lower_bound(cons, goal):
    """lower bound of goal using static bounds refined by single-atom facts"""
    lo_ = {}
    hi_ = {}
    ga = goal.t
    for t, c in cons:
        if len(t) == 1:
            (a, k), = t.items()
            if a not in ga:
                continue
            # k*a + c >= 0
            if k > 0:
                b = -(c // k)  # a >= ceil(-c/k)
                if lo_.get(a) is None or b > lo_[a]:
                    lo_[a] = b
            else:
                b = c // (-k)  # a <= floor(c/-k)
                if hi_.get(a) is None or b < hi_[a]:
                    hi_[a] = b
    lo = goal.c
    for a, k in ga.items():
        alo = ATOM_LO.get(a)
        ahi = ATOM_HI.get(a)
        if a in lo_ and (alo is None or lo_[a] > alo):
            alo = lo_[a]
        if a in hi_ and (ahi is None or hi_[a] < ahi):
            ahi = hi_[a]
        if k > 0:
            if alo is None:
                return None
            lo += k * alo
        else:
            if ahi is None:
                return None
            lo += k * ahi
    return lo


MAX_TERMS = 14


def entails_ge0(facts, goal, neqs=()):
    """facts: iterable of Lin (each >= 0).  goal: Lin.  True if facts |= goal >= 0."""
    # quick: static bounds
    lo, hi = static_bounds(goal)
    if lo is not None and lo >= 0:
        return True
    cons = [(f.t, f.c) for f in facts]
    ql = quick_lower_bound(cons, goal)
    if ql is not None and ql >= 0:
        return True
    if len(cons) > 30 and len(goal.t) <= MAX_TERMS:
        cons = [x for x in cons if len(x[0]) <= MAX_TERMS]
    # negated goal: -goal - 1 >= 0
    ng = (-goal) - 1
    # staged: small neighbourhoods first (large selections make Fourier-Motzkin give up)
    seeds = set(goal.atoms())
    for rounds in (1, 2):
        sel, atoms = relevant(cons, seeds, extra_rounds=rounds)
        if len(sel) > 60:
            break
        sel = list(sel)
        for a in set(atoms) | seeds:
            lo = ATOM_LO.get(a)
            hi = ATOM_HI.get(a)
            if lo is not None:
                sel.append(({a: 1}, -lo))
            if hi is not None:
                sel.append(({a: -1}, hi))
        sel.append((ng.t, ng.c))
        if fm_unsat(sel):
            return True
    sel, atoms = select_with_defs(cons, seeds)
    sel.append((ng.t, ng.c))
    return fm_unsat(sel)


def sup_of(facts, expr, limit_iter=80):
    """least upper bound of expr under facts (integer), or None if unbounded / unknown.
    Binary search using entailment."""
    lo, hi = static_bounds(expr)
    # find some upper bound by doubling
    if hi is None:
        ub = 1
        ok = False
        for _ in range(70):
            if entails_ge0(facts, Lin.const(ub) - expr):
                ok = True
                break
            ub *= 2
        if not ok:
            return None
        hi = ub
    else:
        if not entails_ge0(facts, Lin.const(hi) - expr):
            return None
    if lo is None:
        lo = -(1 << 70)
    # smallest u in [lo,hi] with facts |= expr <= u
    a, b = lo, hi
    it = 0
    while a < b and it < limit_iter:
        it += 1
        m = (a + b) // 2
        if entails_ge0(facts, Lin.const(m) - expr):
            b = m
        else:
            a = m + 1
    return b


def inf_of(facts, expr):
    s = sup_of(facts, -expr)
    return None if s is None else -s
