"""Axioms: obligations accepted by argument (committed, audited table) and trusted construction contexts."""
import os
import re
import json

VERIF = os.path.dirname(os.path.dirname(os.path.abspath(__file__)))


def load_axioms(path=None):
    path = path or os.path.join(VERIF, "axioms.json")
    if not os.path.exists(path):
        return {"trusted_construction_contexts": [], "obligations": []}
    with open(path) as f:
        d = json.load(f)
    d.setdefault("trusted_construction_contexts", [])
    d.setdefault("obligations", [])
    for o in d["obligations"]:
        o["_rx"] = re.compile(o["desc_re"]) if o.get("desc_re") else None
    return d


def trusted_ctx_set(ax):
    return {x["fn"] for x in ax.get("trusted_construction_contexts", [])}


def match_axiom(ax, fn, kind, desc, fail_chains=None):
    """returns the axiom entry covering obligation (fn, kind, desc) or None.
    An entry with `ctx_fn` applies only if every failing instance was reached through that function."""
    for o in ax.get("obligations", []):
        if o["fn"] != fn:
            continue
        if o.get("ctx_fn"):
            if not fail_chains or not all(o["ctx_fn"] in ch for ch in fail_chains):
                continue
        if o.get("kind") and o["kind"] != kind:
            continue
        if o.get("_rx") is not None and not o["_rx"].search(desc):
            continue
        return o
    return None
