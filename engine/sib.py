"""Symbolic composition and comparison of sibling functions (encode -> decode, reader vs slice, writer vs to_bytes).

The abstract interpreter is run on one function with symbolic arguments; every return path yields a final state and a
symbolic return value.  A second function is then run *in that final state* on the first one's result (composition) or
on the same symbolic input (comparison), and the outcomes are compared structurally with entailment under the joint path
condition.  Bytes are linear / bit-structured expressions over the field atoms, so `decode(to_bytes(h)) == h` is decided
for all field values at once.
"""
from .lin import Lin, show_lin, reg_atom, I64MAX
from .values import *
from .absint import Interp, AnalysisAbort, VByteRef
from .models import M, VIter

RESULT = "core::result::Result"
OPTION = "core::option::Option"


class Sib:
    def __init__(self, F, inv, summaries=None, depth=4, budget=150000):
        self.F = F
        self.inv = inv
        self.summaries = summaries or {}
        self.depth = depth
        self.budget = budget
        self.notes = []

    def interp(self):
        I = Interp(self.F, M, self.inv, max_depth=self.depth, budget=self.budget)
        I.rootset = frozenset()
        I.summaries = self.summaries
        I.opts["bitor_oblig"] = False
        I.opts["cast_oblig"] = False
        I.opts["split_copy_len"] = True
        I.opts["bitfields"] = True
        I.keep_finals = True
        return I

    def run(self, body, st, args, I=None):
        """-> (finals [(state, retval)], problems [str])"""
        I = I or self.interp()
        st.frames = []
        st.loop_ctx = ()
        I.root = body
        I.new_frame(st, body, list(args), None, None)
        problems = []
        try:
            I.explore([st], None)
        except AnalysisAbort as e:
            problems.append("analysis budget exceeded in %s" % body["path"])
        for ev in I.sink.events:
            if ev[0] == "unmodelled":
                self.notes.append("unmodelled call %s in %s" % (ev[1], ev[2]))
        return I.finals, sorted(set(problems)), I

    # ------------------------------------------------------------------ value comparison
    def int_eq(self, st, a, b):
        d = a - b
        return st.entails(d) and st.entails(-d)

    def bool_eq(self, st, a, b):
        if a.f == b.f:
            return True
        for (x, y) in ((a.f, b.f), (b.f, a.f)):
            s2 = st.fork_facts()
            try:
                s2.assume(x)
            except Infeasible:
                continue
            if not s2.feasible():
                continue
            if not s2.holds(y):
                return False
        return True

    def discr(self, I, v):
        if v.variant is not None:
            return Lin.const(I.discr_of_variant(v.path, v.variant))
        if v.key is None:
            return None
        return Lin.atom(I.discr_atom(v))

    def eq(self, I, st, a, b, where="", depth=0, out=None):
        """appends descriptions of differences between values a and b (under st) to out"""
        if out is None:
            out = []
        if depth > 10 or len(out) > 6:
            return out
        if isinstance(a, VByteRef):
            a = I.read_byte(st, a.origin, a.off)
        if isinstance(b, VByteRef):
            b = I.read_byte(st, b.origin, b.off)
        if isinstance(a, VInt) and isinstance(b, VInt):
            if not self.int_eq(st, a.lin, b.lin):
                out.append("%s: %s vs %s" % (where or "value", show_lin(a.lin)[:160], show_lin(b.lin)[:160]))
            return out
        if isinstance(a, VBool) and isinstance(b, VBool):
            if not self.bool_eq(st, a, b):
                out.append("%s: bool %s vs %s" % (where or "value", I.show_formula(a.f)[:120], I.show_formula(b.f)[:120]))
            return out
        if isinstance(a, VAdt) and isinstance(b, VAdt):
            if a.path != b.path:
                out.append("%s: type %s vs %s" % (where, a.path, b.path))
                return out
            adt = self.F.adts.get(a.path, {})
            if adt.get("kind") == "enum":
                da, db = self.discr(I, a), self.discr(I, b)
                if da is None or db is None:
                    if not (a.key is not None and a.key == b.key):
                        out.append("%s: untracked enum value" % where)
                    return out
                if not self.int_eq(st, da, db):
                    out.append("%s: variant %s vs %s" % (where, self.variant_name(a, da), self.variant_name(b, db)))
                    return out
                if a.variant is None and b.variant is None:
                    if a.key != b.key and any(x["fields"] for x in adt["variants"]):
                        out.append("%s: same variant but untracked payloads" % where)
                    return out
                va = a.variant if a.variant is not None else b.variant
                fa = a.fields if a.variant is not None else I.variant_fields(st, a, va)
                fb = b.fields if b.variant is not None else I.variant_fields(st, b, va)
                names = [f["name"] for f in adt["variants"][va]["fields"]]
                for i, (x, y) in enumerate(zip(fa or (), fb or ())):
                    self.eq(I, st, x, y, "%s.%s(%s)" % (where, adt["variants"][va]["name"], names[i] if i < len(names) else i),
                            depth + 1, out)
                return out
            if a.fields is None or b.fields is None:
                if not (a.key is not None and a.key == b.key):
                    out.append("%s: untracked struct value" % where)
                return out
            names = [f["name"] for f in adt["variants"][0]["fields"]] if adt.get("variants") else []
            for i, (x, y) in enumerate(zip(a.fields, b.fields)):
                self.eq(I, st, x, y, "%s.%s" % (where, names[i] if i < len(names) else i), depth + 1, out)
            return out
        if isinstance(a, VTuple) and isinstance(b, VTuple):
            for i, (x, y) in enumerate(zip(a.fields, b.fields)):
                self.eq(I, st, x, y, "%s.%d" % (where, i), depth + 1, out)
            return out
        if isinstance(a, VArray) and isinstance(b, VArray):
            if a.elems is not None and b.elems is not None and len(a.elems) == len(b.elems):
                for i, (x, y) in enumerate(zip(a.elems, b.elems)):
                    self.eq(I, st, x, y, "%s[%d]" % (where, i), depth + 1, out)
                return out
            if a.key is not None and a.key == b.key and a.init == b.init:
                return out
            if a.init is not None and b.init is not None:
                if not self.int_eq(st, a.init, b.init):
                    out.append("%s: initialised prefix %s vs %s" % (where, show_lin(a.init), show_lin(b.init)))
                return out
            out.append("%s: untracked array contents" % where)
            return out
        if isinstance(a, VVec) and isinstance(b, VVec):
            if not self.int_eq(st, a.len, b.len):
                out.append("%s: length %s vs %s" % (where, show_lin(a.len), show_lin(b.len)))
                return out
            if a.data is not None and b.data is not None:
                for i, (x, y) in enumerate(zip(a.data, b.data)):
                    if st.entails(Lin.const(i) - a.len):
                        break  # beyond the length on this path
                    if x is None or y is None:
                        out.append("%s[%d]: untracked byte" % (where, i))
                        break
                    # (positions that may lie beyond len are compared too: sound, possibly too strict)
                    s2 = st
                    if not st.entails(a.len - i - 1):
                        s2 = st.fork_facts()
                        try:
                            s2.add_ge0(a.len - i - 1)
                            if not s2.feasible():
                                continue
                        except Infeasible:
                            continue
                    self.eq(I, s2, x, y, "%s[%d]" % (where, i), depth + 1, out)
            elif not (a.key is not None and a.key == b.key):
                out.append("%s: untracked vector contents" % where)
            return out
        if isinstance(a, VRegion) and isinstance(b, VRegion):
            if not self.int_eq(st, a.len, b.len):
                out.append("%s: slice length %s vs %s" % (where, show_lin(a.len), show_lin(b.len)))
                return out
            if a.origin == b.origin and self.int_eq(st, a.off, b.off):
                return out
            if a.len.is_const() and a.len.c <= 64:
                for i in range(a.len.c):
                    x = I.read_byte(st, a.origin, a.off + i)
                    y = I.read_byte(st, b.origin, b.off + i)
                    self.eq(I, st, x, y, "%s[%d]" % (where, i), depth + 1, out)
                return out
            out.append("%s: different slices" % where)
            return out
        if type(a) is type(b) and isinstance(a, VOpaque):
            if a.key is not None and a.key == b.key:
                return out
        if a is b:
            return out
        out.append("%s: cannot compare %s with %s" % (where, type(a).__name__, type(b).__name__))
        return out

    def variant_name(self, v, d):
        adt = self.F.adts.get(v.path)
        if d.is_const() and adt:
            for x in adt["variants"]:
                if x["discr"] == d.c:
                    return x["name"]
        return show_lin(d)

    # ------------------------------------------------------------------ start states
    def split_enums(self, I, st, ref, cap=80, depth=2):
        """case split of the lazily materialised enum values inside the value behind `ref` (one start state per
        variant combination, at most `cap`): returns [(state, description)]"""
        out = [(st, "")]
        seen = set()
        for _ in range(6):
            progressed = False
            nxt = []
            for (s0, desc) in out:
                v = I.load(s0, ("place", ref.fid, ref.local, ref.projs)) if isinstance(ref, VRef) else ref
                tgt = self.first_lazy_enum(I, v, (), depth)
                if tgt is None or len(out) * 2 > cap:
                    nxt.append((s0, desc))
                    continue
                projs, ev = tgt
                adt = self.F.adts.get(ev.path)
                if len(out) * len(adt["variants"]) > cap:
                    nxt.append((s0, desc))
                    continue
                progressed = True
                da = I.discr_atom(ev)
                for vi, var in enumerate(adt["variants"]):
                    s1 = s0.fork()
                    try:
                        d = Lin.atom(da) - I.discr_of_variant(ev.path, vi)
                        s1.add_ge0(d)
                        s1.add_ge0(-d)
                        if not s1.feasible([da]):
                            continue
                        fs = I.variant_fields(s1, ev, vi)
                    except Infeasible:
                        continue
                    nv = VAdt(ev.path, vi, fs, ev.key, ev.ty)
                    if isinstance(ref, VRef):
                        I.store(s1, ("place", ref.fid, ref.local, ref.projs + projs), nv)
                    nxt.append((s1, (desc + " " if desc else "") + var["name"]))
            out = nxt
            if not progressed:
                break
        return out

    def first_lazy_enum(self, I, v, projs, depth):
        if depth < 0:
            return None
        if isinstance(v, VAdt):
            adt = self.F.adts.get(v.path, {})
            if adt.get("kind") == "enum":
                if v.variant is None and v.key is not None and v.ty is not None and 1 < len(adt["variants"]) <= 64:
                    return projs, v
                if v.variant is not None and v.fields:
                    for i, f in enumerate(v.fields):
                        r = self.first_lazy_enum(I, f, projs + (("dc", v.variant), ("f", i, None)), depth - 1)
                        if r is not None:
                            return r
                return None
            if v.fields:
                for i, f in enumerate(v.fields):
                    r = self.first_lazy_enum(I, f, projs + (("f", i, None),), depth - 1)
                    if r is not None:
                        return r
        elif isinstance(v, VTuple):
            for i, f in enumerate(v.fields):
                r = self.first_lazy_enum(I, f, projs + (("f", i, None),), depth - 1)
                if r is not None:
                    return r
        return None

    # ------------------------------------------------------------------ helpers
    def result_variant(self, I, st, rv):
        """'Ok' / 'Err' / None(unknown) of a Result value under st"""
        if not (isinstance(rv, VAdt) and rv.path == RESULT):
            return "Ok"
        if rv.variant is not None:
            return "Ok" if rv.variant == 0 else "Err"
        d = self.discr(I, rv)
        if d is not None:
            if st.entails(-d):
                return "Ok"
            if st.entails(d - 1):
                return "Err"
        return None

    def as_input(self, I, st, val, want_ty, tag):
        """turn an encoder result (array / ArrayVec) into an argument of declared type want_ty (array by value, &[u8],
        &[u8; N]); returns (arg, length Lin) or None"""
        t = I.rt(want_ty)
        if isinstance(val, VArray):
            n = Lin.const(val.n) if val.n is not None else None
        elif isinstance(val, VVec):
            n = val.len
        elif isinstance(val, VRegion):
            n = val.len
        else:
            return None
        if isinstance(t, dict) and t["k"] == "array" and isinstance(val, VArray):
            return val, n
        if isinstance(t, dict) and t["k"] == "ref":
            if isinstance(val, VRegion):
                return val, n
            oid = ("h", ("sib", tag))
            if isinstance(val, VVec):
                # ArrayVec<u8, N>: expose the initialised prefix as the slice
                if val.data is None:
                    return None
                st.heap[oid] = val
                return VRegion(("place", 0, oid, ()), Lin.const(0), val.len, False), n
            st.heap[oid] = val
            return VRegion(("place", 0, oid, ()), Lin.const(0), n, False), n
        return None
