"""Check protocol: run a property's rules, apply axioms / known findings / floors, write evidence."""
import os
import re
import sys
import json
import time
import importlib
import subprocess

from . import pipeline
from .axioms import load_axioms, match_axiom

VERIF = pipeline.VERIF


class Finding:
    def __init__(self, rule, key, msg, loc="", detail=""):
        self.rule = rule
        self.key = key  # stable, line-free
        self.msg = msg
        self.loc = loc
        self.detail = detail

    def to_json(self):
        return {"rule": self.rule, "key": self.key, "msg": self.msg, "loc": self.loc, "detail": self.detail}


class Result:
    """what a property module returns"""

    def __init__(self):
        self.findings = []
        self.instances = {}  # rule -> number of analysed instances
        self.proved = {}  # rule -> number of instances discharged
        self.nontrivial = {}  # rule -> number of distinct non-trivially discharged instances
        self.samples = []
        self.axioms_used = []
        self.notes = []
        self.analysed = {}
        self.errors = []  # fail-closed conditions (exit 2)

    def count(self, rule, n=1, proved=0, nontrivial=0):
        self.instances[rule] = self.instances.get(rule, 0) + n
        self.proved[rule] = self.proved.get(rule, 0) + proved
        self.nontrivial[rule] = self.nontrivial.get(rule, 0) + nontrivial

    def add(self, rule, key, msg, loc="", detail=""):
        self.findings.append(Finding(rule, key, msg, loc, detail))

    def sample(self, s):
        if len(self.samples) < 12:
            self.samples.append(s)


class Ctx:
    def __init__(self, pid, tier):
        self.pid = pid
        self.tier = tier
        self.axioms = load_axioms()
        self._e1 = {}
        self.configs = ["std"] if tier == "quick" else ["std", "alloc", "core"]

    def facts(self, config="std"):
        return pipeline.load_facts(config)

    def e1(self, config="std"):
        k = (config, self.tier)
        if k not in self._e1:
            # both tiers interpret at the same inline depth (proof outcomes must not depend on the tier); the thorough
            # tier adds the alloc-only and core-only feature configurations of the crate
            self._e1[k] = pipeline.ensure_e1(config, "quick")
        return self._e1[k]


def load_known():
    p = os.path.join(VERIF, "known_findings.json")
    if not os.path.exists(p):
        return []
    with open(p) as f:
        return json.load(f).get("findings", [])


def load_floors():
    p = os.path.join(VERIF, "floors.json")
    if not os.path.exists(p):
        return {}
    with open(p) as f:
        return json.load(f)


LEVELS = {}


def run_check(pid, tier="quick"):
    t0 = time.time()
    seed = int(os.environ.get("VERIF_SEED", "0") or 0)
    mod = importlib.import_module("engine.props." + pid.lower())
    ctx = Ctx(pid, tier)
    res = mod.check(ctx)
    known = [k for k in load_known() if k["property"] == pid and k.get("status", "known") == "known"]
    known_keys = {k["key"]: k for k in known}
    floors = load_floors().get(pid, {})
    violations = []
    known_hit = []
    for f in res.findings:
        if f.key in known_keys:
            known_hit.append(f)
        else:
            violations.append(f)
    # floors (fail closed on vacuous passes)
    floor_err = []
    for rule, fl in floors.items():
        n = res.instances.get(rule, 0)
        if n < fl:
            floor_err.append("rule %s analysed %d instances, floor is %d" % (rule, n, fl))
    os.makedirs(os.path.join(VERIF, "evidence"), exist_ok=True)
    os.makedirs(os.path.join(VERIF, "replays"), exist_ok=True)
    out_lines = []
    for f in known_hit:
        out_lines.append("KNOWN-FINDING: property=%s %s [%s] %s" % (pid, known_keys[f.key].get("what", f.msg), f.rule, f.loc))
    replay_paths = []
    for i, f in enumerate(violations):
        rp = os.path.join(VERIF, "replays", "%s-%03d.json" % (pid, i))
        with open(rp, "w") as fh:
            json.dump({"property": pid, "tier": tier, **f.to_json()}, fh, indent=1)
        replay_paths.append(rp)
        out_lines.append("  violation[%s] %s: %s" % (f.rule, f.loc, f.msg))
        out_lines.append("      key: %s" % f.key)
        if f.detail:
            out_lines.append("      " + f.detail[:700])
        out_lines.append("VIOLATION property=%s replay=%s" % (pid, rp))
    total = sum(res.instances.values())
    proved = sum(res.proved.values())
    nontriv = sum(res.nontrivial.values())
    level = getattr(mod, "LEVEL", "other")
    cov = {
        "obligations": total,
        "discharged": proved + len(res.axioms_used),
        "evaluations": total,
        "distinct_nontrivial": nontriv,
        "rule": getattr(mod, "RULE", "one evaluation = one rule instance (obligation, table row, construction site) "
                        "decided from the MIR of /repo's working tree; non-trivial = needed at least one guard, "
                        "invariant or table fact (not closed by constants alone)"),
        "samples": res.samples or [{"note": "no instances"}],
        "checker_cmd": "./verif check %s --tier %s" % (pid, tier),
        "trusted_base": ["rustc nightly MIR construction and Instance resolution", "mirfacts exporter",
                         "foreign-function model table (engine/models.py)"] +
                        ["axiom: %s" % a for a in sorted(set(res.axioms_used))][:60],
        "explanation": getattr(mod, "EXPLANATION", ""),
        "per_rule": {r: {"instances": res.instances.get(r, 0), "discharged": res.proved.get(r, 0)}
                     for r in sorted(res.instances)},
        "analysed": res.analysed,
        "known_findings_matched": [f.key for f in known_hit],
        "axioms_used": len(res.axioms_used),
        "exhaustive": True,
        "notes": res.notes[:40],
    }
    ev = {
        "property_id": pid,
        "tier": tier,
        "seed": seed,
        "level": level,
        "coverage": cov,
        "assumptions": getattr(mod, "ASSUMPTIONS", []),
        "wall_s": round(time.time() - t0, 2),
        "violations": len(violations),
    }
    with open(os.path.join(VERIF, "evidence", "%s.json" % pid), "w") as fh:
        json.dump(ev, fh, indent=1, default=str)
    for l in out_lines:
        print(l)
    print("%s: %d rule instances, %d discharged, %d axioms, %d known findings, %d violations (%.1fs)" % (
        pid, total, proved, len(res.axioms_used), len(known_hit), len(violations), time.time() - t0))
    if res.errors or floor_err:
        for e in res.errors + floor_err:
            print("ERROR (fail closed): " + e)
        return 2
    return 1 if violations else 0


# ------------------------------------------------------------------------------------------- shared helpers

def e1_site_findings(ctx, res, rule, e1, want, prop_label=None):
    """turn failing E1 sites selected by want(fn, kind, desc, site_info)->bool into findings (minus axioms)"""
    from .crate import stable_keys
    sites = e1["sites"]
    keys = stable_keys(sites)
    n = 0
    for k, s in sorted(sites.items(), key=lambda x: (x[0][0], str(x[0][1]), x[0][2], x[0][3])):
        fn, site, kind, desc = k
        if not want(fn, kind, desc, s):
            continue
        n += 1
        skey = keys[k]
        if not s["fail"]:
            res.count(rule, 1, 1, 0 if s["trivial"] else 1)
            if not s["trivial"]:
                res.sample({"obligation": skey, "loc": s["sp"], "verdict": "PROVED", "instances": s["n"]})
            continue
        ax = match_axiom(ctx.axioms, fn, kind, desc, s.get("fail_chains"))
        if ax is not None:
            res.count(rule, 1, 0, 0)
            res.axioms_used.append("%s | %s" % (skey, ax["reason"][:120]))
            continue
        res.count(rule, 1, 0, 0)
        f = [x for x in s["fail"] if x]
        detail = ""
        if f:
            detail = "root %s; inline chain %s; %s" % (f[0][0], " > ".join(c[0] for c in f[0][1]) or "-", f[0][2])
        res.add(rule, skey, "%s obligation not proved: %s in %s" % (kind, desc, fn), s["sp"], detail)
    return n


def e1_health(ctx, res, e1):
    """fail closed on analysis errors / aborts that leave obligations unexplored"""
    for root, err in e1["errors"]:
        res.errors.append("E1 crashed on %s: %s" % (root, err.strip().splitlines()[-1] if err else "?"))
