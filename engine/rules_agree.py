"""Agreement of sibling decoders on the same symbolic input (C06 dispatch clause, C05 strict-vs-lax per layer).

f is interpreted (loops unrolled, fail closed on the bound) on a fully symbolic byte slice, optionally under a
precondition on the input (IP version nibble); g is then interpreted in each final state of f, which fixes the input as
far as f looked at it.  Outcomes are compared structurally: same types field by field; different types by matching
field / variant names (the lax types mirror the strict ones); error values by their innermost payload (LenError in all
five fields).  For strict-vs-lax pairs only the strict-Ok paths are compared and the lax-only markers must be clear
(`incomplete == false`, no stop error)."""
import os
import time
import multiprocessing as mp
from .lin import Lin, show_lin
from .values import *
from .sib import Sib, RESULT, OPTION
from .rules_rt import symbolic_input, describe_err

N = "net::"
PAIRS = [
    # (rule, f, g, version nibble or None, mode)
    ("dispatch", N + "ip_headers::IpHeaders::from_slice", N + "ip_headers::IpHeaders::from_ipv4_slice", 4, "same"),
    ("dispatch", N + "ip_slice::IpSlice::from_slice", N + "ipv4_slice::Ipv4Slice::from_slice", 4, "same"),
    ("dispatch", N + "lax_ip_slice::LaxIpSlice::from_slice", N + "lax_ipv4_slice::LaxIpv4Slice::from_slice", 4, "same"),
    ("dispatch", N + "ip_headers::IpHeaders::from_slice_lax", N + "ip_headers::IpHeaders::from_ipv4_slice_lax", 4, "same"),
    # IPv6 half: the extension parsers shared by both siblings are uninterpreted functions of their arguments (UF), so
    # what is compared is everything around them: which slice and next-header number they are handed, the payload cut,
    # the error fix-ups
    ("dispatch", N + "ip_headers::IpHeaders::from_slice", N + "ip_headers::IpHeaders::from_ipv6_slice", 6, "same"),
    ("dispatch", N + "ip_slice::IpSlice::from_slice", N + "ipv6_slice::Ipv6Slice::from_slice", 6, "same"),
    ("dispatch", N + "lax_ip_slice::LaxIpSlice::from_slice", N + "lax_ipv6_slice::LaxIpv6Slice::from_slice", 6, "same"),
    ("lax", "link::macsec_slice::MacsecSlice::from_slice", "link::lax_macsec_slice::LaxMacsecSlice::from_slice", None, "lax"),
    ("lax", N + "ipv4_slice::Ipv4Slice::from_slice", N + "lax_ipv4_slice::LaxIpv4Slice::from_slice", None, "lax"),
    ("lax", N + "ip_headers::IpHeaders::from_ipv4_slice", N + "ip_headers::IpHeaders::from_ipv4_slice_lax", None, "lax"),
]
# not run, nothing claimed: the strict-vs-lax IPv6 pairs call *different* extension parsers (no shared callee to abstract,
# joint walks > 150 s each); the lax IPv6 dispatch pair compares stop errors whose wrappers are not fixed on the path
IPV6_PAIRS = [
    ("dispatch", N + "ip_headers::IpHeaders::from_slice_lax", N + "ip_headers::IpHeaders::from_ipv6_slice_lax", 6, "same"),
    ("lax", N + "ipv6_slice::Ipv6Slice::from_slice", N + "lax_ipv6_slice::LaxIpv6Slice::from_slice", None, "lax"),
    ("lax", N + "ip_slice::IpSlice::from_slice", N + "lax_ip_slice::LaxIpSlice::from_slice", None, "lax"),
    ("lax", N + "ip_headers::IpHeaders::from_slice", N + "ip_headers::IpHeaders::from_slice_lax", None, "lax"),
    ("lax", N + "ip_headers::IpHeaders::from_ipv6_slice", N + "ip_headers::IpHeaders::from_ipv6_slice_lax", None, "lax"),
]
UF = (N + "ipv6_exts::Ipv6Extensions::from_slice", N + "ipv6_exts::Ipv6Extensions::from_slice_lax",
      N + "ipv6_exts_slice::Ipv6ExtensionsSlice::from_slice", N + "ipv6_exts_slice::Ipv6ExtensionsSlice::from_slice_lax")
LAX_ONLY_FALSE = ("incomplete",)
LAX_ONLY_NONE = ("stop_err", "stop_error")


def innermost_err(F, v):
    e = v
    for _ in range(6):
        if not isinstance(e, VAdt):
            return e
        if e.path.endswith("LenError"):
            return e
        adt = F.adts.get(e.path)
        if adt and adt["kind"] == "enum" and e.variant is not None and e.fields and len(e.fields) == 1 and \
                isinstance(e.fields[0], VAdt) and e.fields[0].path.startswith("err::"):
            e = e.fields[0]
            continue
        return e
    return e


class Cmp:
    def __init__(self, S, F, I, st, mode):
        self.S, self.F, self.I, self.st, self.mode = S, F, I, st, mode
        self.out = []

    def fields_by_name(self, v):
        adt = self.F.adts.get(v.path)
        if adt is None or v.fields is None:
            return None
        var = adt["variants"][v.variant if v.variant is not None else 0]
        return {f["name"]: x for f, x in zip(var["fields"], v.fields)}

    @staticmethod
    def vname(n):
        # err::ip::HeaderError::Ipv4HeaderLengthSmallerThanHeader is err::ipv4::HeaderError::HeaderLengthSmallerThanHeader
        for p in ("Ipv4", "Ipv6"):
            if n.startswith(p) and len(n) > len(p) and n[len(p)].isupper():
                return n[len(p):]
        return n

    def cmp(self, a, b, where, depth=0):
        if depth > 8 or len(self.out) > 5:
            return
        F = self.F
        if isinstance(a, VAdt) and isinstance(b, VAdt) and a.path == b.path and a.path in (OPTION, RESULT):
            da, db = self.S.discr(self.I, a), self.S.discr(self.I, b)
            if da is None or db is None or not self.S.int_eq(self.st, da, db):
                self.out.append("%s: %s vs %s" % (where, self.S.variant_name(a, da) if da is not None else "?",
                                                  self.S.variant_name(b, db) if db is not None else "?"))
                return
            if a.variant is not None and b.variant is not None and a.fields and b.fields:
                self.cmp(a.fields[0], b.fields[0], where + "." + ("Some" if a.path == OPTION else "Ok/Err"), depth + 1)
            elif a.variant is None and b.variant is None and a.key != b.key and da.is_const() is False:
                self.out.append("%s: untracked payloads" % where)
            return
        if isinstance(a, VAdt) and isinstance(b, VAdt) and a.path != b.path and a.path.startswith("err::") and \
                b.path.startswith("err::"):
            ea, eb = innermost_err(F, a), innermost_err(F, b)
            if isinstance(ea, VAdt) and isinstance(eb, VAdt):
                if ea.path == eb.path:
                    self.S.eq(self.I, self.st, ea, eb, where, depth, self.out)
                    return
                adta, adtb = F.adts.get(ea.path), F.adts.get(eb.path)
                if adta and adtb and adta["kind"] == "enum" and adtb["kind"] == "enum" and \
                        ea.variant is not None and eb.variant is not None:
                    na, nb = adta["variants"][ea.variant]["name"], adtb["variants"][eb.variant]["name"]
                    if self.vname(na) != self.vname(nb):
                        self.out.append("%s: error %s vs %s" % (where, na, nb))
                        return
                    for i, (x, y) in enumerate(zip(ea.fields or (), eb.fields or ())):
                        self.cmp(x, y, "%s.%s(%d)" % (where, na, i), depth + 1)
                    return
        if isinstance(a, VAdt) and isinstance(b, VAdt) and a.path != b.path:
            adta, adtb = F.adts.get(a.path), F.adts.get(b.path)
            if adta is None or adtb is None:
                self.out.append("%s: cannot relate %s and %s" % (where, a.path, b.path))
                return
            # enum wrapping the other type (IpSlice::Ipv4(Ipv4Slice) vs Ipv4Slice)
            for (x, y, sw) in ((a, b, False), (b, a, True)):
                adx = F.adts.get(x.path)
                if adx["kind"] == "enum" and x.variant is not None and x.fields and len(x.fields) == 1 and \
                        isinstance(x.fields[0], VAdt) and x.fields[0].path == y.path:
                    return self.cmp(x.fields[0], y, where, depth + 1) if not sw else self.cmp(y, x.fields[0], where, depth + 1)
            if adta["kind"] == "enum" and adtb["kind"] == "enum":
                if a.variant is None or b.variant is None:
                    self.out.append("%s: variant of %s / %s not fixed on the path" % (where, a.path.rsplit("::", 1)[1], b.path.rsplit("::", 1)[1]))
                    return
                na = adta["variants"][a.variant]["name"]
                nb = adtb["variants"][b.variant]["name"]
                if na != nb:
                    self.out.append("%s: variant %s vs %s" % (where, na, nb))
                    return
                fa_, fb_ = list(a.fields or ()), list(b.fields or ())
                if len(fa_) == len(fb_):
                    for i, (x, y) in enumerate(zip(fa_, fb_)):
                        self.cmp(x, y, "%s.%s(%d)" % (where, na, i), depth + 1)
                else:
                    # positional vs named payloads (`Modified(&[u8])` vs `Modified { incomplete, payload }`): pair
                    # the values by kind, the remaining lax-only markers must be clear
                    names_b = [f["name"] for f in adtb["variants"][b.variant]["fields"]]
                    used = set()
                    for i, x in enumerate(fa_):
                        for j, y in enumerate(fb_):
                            if j not in used and type(x) is type(y):
                                used.add(j)
                                self.cmp(x, y, "%s.%s(%d)" % (where, na, i), depth + 1)
                                break
                    for j, y in enumerate(fb_):
                        if j in used:
                            continue
                        nm = names_b[j] if j < len(names_b) else str(j)
                        if self.mode == "lax" and nm in LAX_ONLY_FALSE and isinstance(y, VBool):
                            if not self.st.holds(f_not(y.f)):
                                self.out.append("%s.%s.%s may be true although strict decoding succeeds" % (where, na, nm))
                        elif not (self.mode == "lax" and nm in LAX_ONLY_NONE):
                            self.out.append("%s.%s.%s has no counterpart" % (where, na, nm))
                return
            fa, fb = self.fields_by_name(a), self.fields_by_name(b)
            if fa is None or fb is None:
                self.out.append("%s: untracked value" % where)
                return
            for nm in fa:
                if nm in fb:
                    self.cmp(fa[nm], fb[nm], "%s.%s" % (where, nm), depth + 1)
            if self.mode == "lax":
                for nm, v in fb.items():
                    if nm in LAX_ONLY_FALSE and isinstance(v, VBool):
                        if not self.st.holds(f_not(v.f)):
                            self.out.append("%s.%s may be true although strict decoding succeeds" % (where, nm))
                    if nm in LAX_ONLY_NONE and isinstance(v, VAdt) and v.path == OPTION and v.variant != 0:
                        self.out.append("%s.%s is set although strict decoding succeeds" % (where, nm))
            return
        if isinstance(a, VTuple) and isinstance(b, VTuple):
            for i, (x, y) in enumerate(zip(a.fields, b.fields)):
                self.cmp(x, y, "%s.%d" % (where, i), depth + 1)
            if self.mode == "lax":
                for i in range(len(a.fields), len(b.fields)):
                    v = b.fields[i]
                    if isinstance(v, VAdt) and v.path == OPTION and v.variant != 0:
                        if not (v.variant is None and v.key is not None and
                                self.st.entails(-Lin.atom(self.I.discr_atom(v)))):
                            self.out.append("%s.%d: lax decoding reports a stop error although strict decoding succeeds" % (where, i))
            return
        if isinstance(a, VAdt) and isinstance(b, VTuple) and self.mode == "lax":
            # strict returns T, lax returns (T', Option<err>, ..)
            self.cmp(a, b.fields[0], where, depth + 1)
            for i in range(1, len(b.fields)):
                v = b.fields[i]
                if isinstance(v, VAdt) and v.path == OPTION and v.variant != 0:
                    if not (v.variant is None and v.key is not None and self.st.entails(-Lin.atom(self.I.discr_atom(v)))):
                        self.out.append("%s.%d: lax decoding reports a stop error although strict decoding succeeds" % (where, i))
            return
        if isinstance(a, VTuple) != isinstance(b, VTuple) and (isinstance(a, VAdt) or isinstance(b, VAdt)):
            # (error, layer) against a bare error value: compare the innermost error payloads
            t, v = (a, b) if isinstance(a, VTuple) else (b, a)
            if t.fields:
                ea, eb = innermost_err(self.F, t.fields[0]), innermost_err(self.F, v)
                if isinstance(ea, VAdt) and isinstance(eb, VAdt) and ea.path == eb.path:
                    self.S.eq(self.I, self.st, ea, eb, where, depth, self.out)
                    return
        tmp = []
        self.S.eq(self.I, self.st, a, b, where, depth, tmp)
        for d in tmp:
            if d.endswith("untracked array contents") or d.endswith("untracked vector contents"):
                self.skipped = getattr(self, "skipped", 0) + 1  # buffers above 64 bytes: contents not compared
                continue
            self.out.append(d)


class PairTimeout(Exception):
    pass


def _alarm(signum, frame):
    raise PairTimeout()


def check_pair(a):
    import signal
    signal.signal(signal.SIGALRM, _alarm)
    signal.alarm(int(os.environ.get("AGREE_TIME", "900")))
    try:
        return check_pair_(a)
    except PairTimeout:
        rule, fpath, gpath, ver, mode = a
        return {"rule": rule, "what": "%s ~ %s" % (fpath.split("::", 1)[1], gpath.split("::", 1)[1]), "sp": "",
                "problems": ["time budget of the comparison exceeded"], "paths": 0, "ok": 0, "err": 0, "time": -1}
    finally:
        signal.alarm(0)


def check_pair_(a):
    rule, fpath, gpath, ver, mode = a
    F = _F
    S = Sib(F, _INV, _SUMM, depth=int(os.environ.get("AGREE_DEPTH", "7")), budget=int(os.environ.get("AGREE_BUDGET", "250000")))
    t0 = time.time()
    f, g = F.bodies.get(fpath), F.bodies.get(gpath)
    name = "%s ~ %s" % (fpath.split("::", 1)[1], gpath.split("::", 1)[1])
    r = {"rule": rule, "what": name, "sp": g["span"] if g else "", "problems": [], "paths": 0, "ok": 0, "err": 0}
    if f is None or g is None:
        r["problems"].append("function not found")
        return r
    try:
        I = S.interp()
        I.opts["unroll"] = 9
        if rule == "dispatch":
            I.opts["uf_calls"] = frozenset(UF)
        st = State()
        arg, origin, total = symbolic_input(I, st, f["locals"][1][0], "in")
        if ver is not None:
            b0 = I.read_byte(st, origin, Lin.const(0))
            hi = I.int_binop(st, "Shr", b0.lin, Lin.const(4), "u8")
            I.add_def_facts(st, hi)
            st.add_ge0(total - 1)
            st.add_ge0(hi - ver)
            st.add_ge0(Lin.const(ver) - hi)
        fin, probs, I = S.run(f, st, [arg], I)
        r["problems"] += probs
        if any(e[0] == "unroll_bound" for e in I.sink.events):
            r["problems"].append("loop of %s not exhausted within the unroll bound" % fpath)
        for (s1, av) in fin:
            if not s1.feasible():
                continue
            ca = S.result_variant(I, s1, av)
            if mode == "lax" and ca != "Ok":
                continue
            I2 = S.interp()
            I2.opts["unroll"] = 9
            if rule == "dispatch":
                I2.opts["uf_calls"] = frozenset(UF)
            s2 = s1.fork()
            fin2, probs2, I2 = S.run(g, s2, [arg], I2)
            if any(e[0] == "unroll_bound" for e in I2.sink.events):
                r["problems"].append("loop of %s not exhausted within the unroll bound" % gpath)
            for (s3, bv) in fin2:
                if not s3.feasible():
                    continue
                r["paths"] += 1
                cb = S.result_variant(I2, s3, bv)
                if ca is None or cb is None:
                    r["problems"].append("result class undecided on a joint path")
                    continue
                if ca != cb:
                    r["problems"].append("%s returns %s (%s) where %s returns %s (%s) for the same bytes" % (
                        fpath.rsplit("::", 2)[-2] + "::" + fpath.rsplit("::", 1)[1], ca,
                        describe_err(F, av) if ca == "Err" else "value",
                        gpath.rsplit("::", 2)[-2] + "::" + gpath.rsplit("::", 1)[1], cb,
                        describe_err(F, bv) if cb == "Err" else "value"))
                    continue
                c = Cmp(S, F, I2, s3, mode)
                if ca == "Ok":
                    r["ok"] += 1
                    c.cmp(av.fields[0], bv.fields[0], "result")
                else:
                    r["err"] += 1
                    ea, eb = innermost_err(F, av.fields[0]), innermost_err(F, bv.fields[0])
                    if isinstance(ea, VAdt) and isinstance(eb, VAdt) and ea.path == eb.path:
                        S.eq(I2, s3, ea, eb, "error", 0, c.out)
                    elif isinstance(ea, VAdt) and isinstance(eb, VAdt) and not ea.path.endswith("LenError") and \
                            not eb.path.endswith("LenError"):
                        c.cmp(ea, eb, "error")
                    else:
                        c.out.append("error: %s vs %s" % (describe_err(F, av), describe_err(F, bv)))
                for d in c.out:
                    r["problems"].append(d)
                if len(r["problems"]) > 6:
                    break
            if len(r["problems"]) > 6:
                break
    except Exception:
        import traceback
        r["problems"].append("crash: " + " | ".join(traceback.format_exc().strip().splitlines()[-2:]))
    r["problems"] = list(dict.fromkeys(r["problems"]))[:6]
    r["time"] = time.time() - t0
    return r


_F = None
_INV = None
_SUMM = None


def is_heavy(p):
    """lax pairs that walk IPv6 extension chains in both siblings (thousands of joint paths): thorough tier only"""
    return p[0] == "lax" and ("ipv6" in p[1].lower() or p[1].endswith(("IpSlice::from_slice", "IpHeaders::from_slice")))


def run(F, inv, summaries, jobs=None, only=None, rules=None, heavy=False, ipv6=False):
    global _F, _INV, _SUMM
    _F, _INV, _SUMM = F, inv, summaries
    pairs = [p for p in (PAIRS + (IPV6_PAIRS if ipv6 else [])) if (not only or only in p[1] + p[2]) and (not rules or p[0] in rules)
             and (heavy or not is_heavy(p))]
    jobs = jobs or min(16, os.cpu_count() or 4)
    ctx = mp.get_context("fork")
    with ctx.Pool(jobs) as pool:
        res = pool.map(check_pair, pairs, chunksize=1)
    return res


# ------------------------------------------------------------------------------------------------------------------
# C04, transport layer: what struct-mode decoding (`packet_headers::read_transport`) makes of an unfragmented IP payload
# agrees with what the slicing cursor makes of it.  The slice decoder is taken from the cursor's own MIR (the
# `*Slice::from_slice` callee of `SlicedPacketCursor::slice_<proto>`), so a change on either side is seen.

TRANSPORT = [  # (ip number, cursor method, TransportHeader variant, header accessor)
    (1, "slice_icmp4", "Icmpv4", "header"),
    (58, "slice_icmp6", "Icmpv6", "header"),
    (17, "slice_udp", "Udp", "to_header"),
    (6, "slice_tcp", "Tcp", "to_header"),
]


def cursor_decoder(F, method):
    b = F.bodies.get("sliced_packet_cursor::SlicedPacketCursor::" + method)
    if b is None:
        return None
    for blk in b["blocks"]:
        t = blk["term"]
        if t["t"] == "call":
            p = t["callee"].get("res") or ""
            if p.endswith("Slice::from_slice") and p.startswith("transport::"):
                return p
    return None


def check_transport(a):
    num, method, variant, hacc = a
    F = _F
    S = Sib(F, _INV, _SUMM, depth=7, budget=400000)
    t0 = time.time()
    r = {"rule": "transport", "what": "read_transport(ip_number=%d) ~ SlicedPacketCursor::%s" % (num, method), "sp": "",
         "problems": [], "paths": 0, "ok": 0, "err": 0}
    try:
        rt = F.bodies["packet_headers::read_transport"]
        r["sp"] = rt["span"]
        dec_path = cursor_decoder(F, method)
        if dec_path is None:
            r["problems"].append("the cursor's slice decoder could not be identified")
            return r
        dec = F.bodies[dec_path]
        ty = dec_path.rsplit("::", 1)[0]
        hfn, pfn = F.bodies.get(ty + "::" + hacc), F.bodies.get(ty + "::payload")
        if hfn is None or pfn is None:
            r["problems"].append("accessors of %s not found" % ty)
            return r
        I = S.interp()
        st = State()
        ipp = I.materialize(st, rt["locals"][1][0], ("tr", 0))
        adt = F.adts[ipp.path]
        names = [f["name"] for f in adt["variants"][0]["fields"]]
        fs = dict(zip(names, ipp.fields))
        # unfragmented payload of protocol `num`, bounded by the slice
        ipn = fs["ip_number"]
        nv = ipn.fields[0]
        st.add_ge0(nv.lin - num)
        st.add_ge0(Lin.const(num) - nv.lin)
        st.assume(f_not(fs["fragmented"].f))
        P = fs["payload"]
        ls = fs["len_source"]
        fin, probs, I = S.run(rt, st, [ipp], I)
        r["problems"] += probs
        for (s1, av) in fin:
            if not s1.feasible():
                continue
            ca = S.result_variant(I, s1, av)
            I2 = S.interp()
            s2 = s1.fork()
            fin2, _, I2 = S.run(dec, s2, [P], I2)
            for (s3, bv) in fin2:
                if not s3.feasible():
                    continue
                r["paths"] += 1
                cb = S.result_variant(I2, s3, bv)
                if ca != cb or ca is None:
                    r["problems"].append("struct decoding returns %s (%s) where slicing returns %s (%s) for the same IP payload" % (
                        ca, describe_err(F, av) if ca == "Err" else "headers", cb, describe_err(F, bv) if cb == "Err" else "slice"))
                    continue
                if ca == "Err":
                    r["err"] += 1
                    continue  # (error descriptors: the cursor adds its offset / len source, C07's subject)
                r["ok"] += 1
                th, pay = av.fields[0].fields[0], av.fields[0].fields[1]
                sl = bv.fields[0]
                oid = ("h", ("tr", "sl"))
                s3.heap[oid] = sl
                ref = VRef(0, oid, (), False)
                s4 = s3.fork()
                finh, _, Ih = S.run(hfn, s4, [ref])
                for (s5, hv) in finh:
                    if not s5.feasible():
                        continue
                    # TransportHeader is Option<TransportHeader::X(header)>
                    got = th
                    if isinstance(got, VAdt) and got.path == OPTION:
                        if got.variant != 1:
                            r["problems"].append("struct decoding yields no transport header")
                            continue
                        got = got.fields[0]
                    if isinstance(got, VAdt) and got.fields:
                        gadt = F.adts.get(got.path)
                        vn = gadt["variants"][got.variant]["name"] if got.variant is not None else "?"
                        if vn != variant:
                            r["problems"].append("struct decoding yields TransportHeader::%s for ip number %d" % (vn, num))
                            continue
                        got = got.fields[0]
                    for d in S.eq(Ih, s5, got, hv, "header"):
                        r["problems"].append("transport header differs: " + d)
                    s6 = s5.fork()
                    finp, _, Ip = S.run(pfn, s6, [ref])
                    for (s7, pv) in finp:
                        if not s7.feasible():
                            continue
                        reg = None
                        for (_, g) in Ip.walk_regions(pay):
                            reg = g
                        if reg is None or not isinstance(pv, VRegion):
                            r["problems"].append("payload range not tracked")
                            continue
                        if reg.origin != pv.origin or not S.int_eq(s7, reg.off, pv.off) or not S.int_eq(s7, reg.len, pv.len):
                            r["problems"].append("payload differs: struct decoding hands out [%s, +%s) of the IP payload, "
                                                 "slicing [%s, +%s)" % (show_lin(reg.off), show_lin(reg.len),
                                                                        show_lin(pv.off), show_lin(pv.len)))
                if len(r["problems"]) > 5:
                    break
            if len(r["problems"]) > 5:
                break
    except Exception:
        import traceback
        r["problems"].append("crash: " + " | ".join(traceback.format_exc().strip().splitlines()[-2:]))
    r["problems"] = list(dict.fromkeys(r["problems"]))[:5]
    r["time"] = time.time() - t0
    return r


def run_transport(F, inv, summaries, jobs=None):
    global _F, _INV, _SUMM
    _F, _INV, _SUMM = F, inv, summaries
    ctx = mp.get_context("fork")
    with ctx.Pool(4) as pool:
        return pool.map(check_transport, TRANSPORT, chunksize=1)
