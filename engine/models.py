"""Models of foreign (core/alloc/std/arrayvec) functions for the E1 interpreter."""
import re
from .lin import Lin, reg_atom, static_bounds, I64MAX, U64MAX, show_lin
from .values import *
from .absint import NOT_HANDLED, VByteRef, mask_of_lin
from .facts import INT_TYPES, INT_BITS


class VIter:
    __slots__ = ("kind", "d")

    def __init__(self, kind, **d):
        self.kind = kind
        self.d = d

    def __repr__(self):
        return "Iter(%s,%r)" % (self.kind, self.d)


class Models:
    def __init__(self):
        self.exact = {}
        self.patterns = []
        self.used = {}

    def reg(self, *paths):
        def deco(fn):
            for p in paths:
                self.exact[p] = fn
            return fn
        return deco

    def regp(self, pattern):
        rx = re.compile(pattern)

        def deco(fn):
            self.patterns.append((rx, fn))
            return fn
        return deco

    def lookup(self, path, decl, callee):
        for p in ((path, decl) if path != decl else (path,)):
            if p in self.exact:
                self.used[p] = self.used.get(p, 0) + 1
                return self.exact[p]
            for rx, fn in self.patterns:
                if rx.search(p):
                    self.used[p] = self.used.get(p, 0) + 1
                    return fn
        return None


M = Models()

# ------------------------------------------------------------------------------------------------- helpers


def enum_variant(I, path, name):
    adt = I.F.adts.get(path)
    if adt:
        for i, v in enumerate(adt["variants"]):
            if v["name"] == name:
                return i
    return {"None": 0, "Some": 1, "Ok": 0, "Err": 1, "Continue": 0, "Break": 1}[name]


OPTION = "core::option::Option"
RESULT = "core::result::Result"
CFLOW = "core::ops::ControlFlow"


def mk(I, path, name, fields, ty=None):
    return VAdt(path, enum_variant(I, path, name), tuple(fields), None, ty)


def some(I, v, ty=None):
    return mk(I, OPTION, "Some", [v], ty)


def none(I, ty=None):
    return mk(I, OPTION, "None", [], ty)


def ok(I, v, ty=None):
    return mk(I, RESULT, "Ok", [v], ty)


def err(I, v, ty=None):
    return mk(I, RESULT, "Err", [v], ty)


def adt_path_of(I, t):
    t = I.rt(t)
    if isinstance(t, dict) and t["k"] == "adt":
        return t["path"]
    return None


def deref(I, st, v):
    """follow a reference value to the value it points at"""
    if isinstance(v, VRef):
        return I.load(st, ("place", v.fid, v.local, v.projs))
    if isinstance(v, VByteRef):
        return I.read_byte(st, v.origin, v.off, v.mut)
    return v


def split_variants(I, st, v, names=None):
    """for an enum value: list of (state, value-with-known-variant).  Forks the state when unknown."""
    if not isinstance(v, VAdt):
        return None
    if v.variant is not None:
        return [(st, v)]
    adt = I.F.adts.get(v.path)
    if adt is None:
        return None
    out = []
    da = I.discr_atom(v)
    n = len(adt["variants"])
    for i, var in enumerate(adt["variants"]):
        s2 = st.fork() if i < n - 1 else st
        try:
            s2.assume(("eq", Lin.atom(da) - var["discr"]))
            if not s2.feasible({da}):
                continue
        except Infeasible:
            continue
        fs = I.variant_fields(s2, v, i)
        out.append((s2, VAdt(v.path, i, fs, v.key, v.ty)))
    return out


def variant_name(I, v):
    adt = I.F.adts.get(v.path)
    return adt["variants"][v.variant]["name"]


def as_region(I, st, v):
    """turn a slice-like reference value into a VRegion (or None)"""
    if isinstance(v, VRegion):
        return v
    if isinstance(v, VRef):
        tgt = I.load(st, ("place", v.fid, v.local, v.projs))
        if isinstance(tgt, VArray) and tgt.n is not None:
            return VRegion(("place", v.fid, v.local, v.projs), Lin.const(0), Lin.const(tgt.n), v.mut)
        if isinstance(tgt, VRegion):
            return tgt
        if isinstance(tgt, VVec) and tgt.elems == "u8":
            if tgt.data is not None:
                return VRegion(("place", v.fid, v.local, v.projs), Lin.const(0), tgt.len, v.mut)
            return VRegion(("vecbuf", tgt.key, fresh_id()), Lin.const(0), tgt.len, True)
    if isinstance(v, VVec) and v.elems == "u8":
        return VRegion(("vecbuf", v.key, fresh_id()), Lin.const(0), v.len, True)
    return None


class VGSlice:
    """&[T] for non-byte T: only the length is tracked"""
    __slots__ = ("ety", "len", "mut")

    def __init__(self, ety, len_, mut=False):
        self.ety = ety
        self.len = len_
        self.mut = mut

    def __repr__(self):
        return "GSlice(%r,len=%s)" % (self.ety, show_lin(self.len))


def as_gslice(I, st, v):
    if isinstance(v, VGSlice):
        return v
    if isinstance(v, VRef):
        tgt = I.load(st, ("place", v.fid, v.local, v.projs))
        if isinstance(tgt, VVec) and tgt.elems is not None and tgt.elems != "u8":
            return VGSlice(tgt.elems, tgt.len, v.mut)
        if isinstance(tgt, VArray) and tgt.n is not None and tgt.ety is not None and tgt.ety != "u8":
            return VGSlice(tgt.ety, Lin.const(tgt.n), v.mut)
        if isinstance(tgt, VGSlice):
            return tgt
    if isinstance(v, VVec) and v.elems is not None and v.elems != "u8":
        return VGSlice(v.elems, v.len, False)
    return None


def gelem_ref(c, st, g):
    """a reference to an unknown element of generic slice g"""
    ety = g.ety
    oid = ("ge", fresh_id())
    st.heap[oid] = c.I.materialize(st, ety, ("gev", fresh_id()))
    return VRef(0, oid, (), g.mut)


def range_bounds(I, st, rng, ln):
    """for a range-like index value return (start Lin, end Lin) or None.  ln = slice length Lin"""
    if isinstance(rng, VAdt):
        p = rng.path.split("::")[-1]
        fs = rng.fields or ()
        def L(x):
            return x.lin if isinstance(x, VInt) else None
        if p == "Range" and len(fs) == 2:
            a, b = L(fs[0]), L(fs[1])
            return (a, b) if a is not None and b is not None else None
        if p == "RangeFrom" and len(fs) == 1:
            a = L(fs[0])
            return (a, ln) if a is not None else None
        if p == "RangeTo" and len(fs) == 1:
            b = L(fs[0])
            return (Lin.const(0), b) if b is not None else None
        if p == "RangeFull":
            return (Lin.const(0), ln)
        if p == "RangeToInclusive" and len(fs) == 1:
            b = L(fs[0])
            return (Lin.const(0), b + 1) if b is not None else None
        if p == "RangeInclusive" and len(fs) >= 2:
            a, b = L(fs[0]), L(fs[1])
            return (a, b + 1) if a is not None and b is not None else None
    return None


def index_region(call, r, idx, kind, what):
    """index region r by idx (usize VInt or range). kind: 'panic' (safe) or 'read' (unchecked). returns value"""
    I, st = call.I, call.st
    if isinstance(idx, VInt):
        g1 = idx.lin
        g2 = r.len - idx.lin - 1
        p = st.entails(g1) and st.entails(g2)
        call.oblige(kind, what + " index < len", p,
                    "" if p else "need %s>=0; facts: %s" % (show_lin(g2), I.show_facts(st, g2)),
                    trivial=g2.is_const())
        if kind == "panic":
            st.add_ge0(g2)
        return VByteRef(r.origin, r.off + idx.lin, r.mut)
    rb = range_bounds(I, st, idx, r.len)
    if rb is None:
        call.oblige(kind, what + " (unmodelled index)", False, repr(idx))
        return call.fresh()
    a, b = rb
    g0 = a
    g1 = b - a
    g2 = r.len - b
    p = st.entails(g0) and st.entails(g1) and st.entails(g2)
    call.oblige(kind, what + " range inside slice", p,
                "" if p else "need %s>=0 and %s>=0; facts: %s" % (show_lin(g1), show_lin(g2),
                                                                  I.show_facts(st, g1 + g2)),
                trivial=g1.is_const() and g2.is_const())
    if kind == "panic":
        st.add_ge0(g1)
        st.add_ge0(g2)
    return VRegion(r.origin, r.off + a, b - a, r.mut)


def fork2(call, f, then_v, else_v):
    """fork on formula f; then_v/else_v: callables(state)->value or None to skip"""
    out = []
    I = call.I
    for g, mkv in ((f, then_v), (f_not(f), else_v)):
        if mkv is None:
            continue
        s2 = call.st.fork()
        try:
            if g[0] != "unk":
                s2.assume(g)
                if not I.feasible_after(s2, g):
                    continue
        except Infeasible:
            continue
        v = mkv(s2)
        out.extend(call.ret_k(s2, v))
    return out


def unknown_bool():
    a = reg_atom(("v", ("ub", fresh_id())), 0, 1)
    return VBool(("ge", Lin.atom(a) - 1))


# ------------------------------------------------------------------------------------------------- slices

@M.reg("core::slice::<impl [T]>::len")
def m_len(c):
    r = as_region(c.I, c.st, c.args[0])
    if r is not None:
        return c.ret(VInt(r.len))
    g = as_gslice(c.I, c.st, c.args[0])
    if g is not None:
        return c.ret(VInt(g.len))
    a = reg_atom(("len", ("unk", fresh_id())), 0, I64MAX)
    return c.ret(VInt(Lin.atom(a)))


@M.reg("core::slice::<impl [T]>::is_empty")
def m_is_empty(c):
    r = as_region(c.I, c.st, c.args[0])
    if r is not None:
        return c.ret(VBool(f_simplify(("eq", r.len))))
    g = as_gslice(c.I, c.st, c.args[0])
    if g is not None:
        return c.ret(VBool(f_simplify(("eq", g.len))))
    return c.ret(unknown_bool())


@M.reg("core::slice::<impl [T]>::as_ptr", "core::slice::<impl [T]>::as_mut_ptr",
       "core::array::<impl [T; N]>::as_ptr")
def m_as_ptr(c):
    r = as_region(c.I, c.st, c.args[0])
    if r is not None:
        return c.ret(VPtr(r.origin, r.off, r.off, r.off + r.len, r.mut))
    return c.ret(VPtr(("p", ("unk", fresh_id())), Lin.const(0), None, None, False))


@M.reg("core::slice::<impl [T]>::get_unchecked", "core::slice::<impl [T]>::get_unchecked_mut")
def m_get_unchecked(c):
    r = as_region(c.I, c.st, c.args[0])
    if r is None:
        c.oblige("read", "get_unchecked on unmodelled slice", False, repr(c.args[0]))
        return c.ret(c.fresh())
    return c.ret(index_region(c, r, c.args[1], "read", "get_unchecked"))


@M.reg("core::slice::index::<impl core::ops::Index<I> for [T]>::index",
       "core::slice::index::<impl core::ops::IndexMut<I> for [T]>::index_mut",
       "core::array::<impl core::ops::Index<I> for [T; N]>::index",
       "core::array::<impl core::ops::IndexMut<I> for [T; N]>::index_mut",
       "<alloc::vec::Vec<T, A> as core::ops::Index<I>>::index",
       "<alloc::vec::Vec<T, A> as core::ops::IndexMut<I>>::index_mut")
def m_index(c):
    r = as_region(c.I, c.st, c.args[0])
    if r is None:
        g = as_gslice(c.I, c.st, c.args[0])
        if g is not None:
            idx = c.args[1]
            if isinstance(idx, VInt):
                gl = g.len - idx.lin - 1
                p = c.st.entails(gl) and c.st.entails(idx.lin)
                c.oblige("panic", "slice index index < len", p, "" if p else "need %s>=0; facts: %s" % (show_lin(gl), c.I.show_facts(c.st, gl)))
                c.st.add_ge0(gl)
                return c.ret(gelem_ref(c, c.st, g))
            rb = range_bounds(c.I, c.st, idx, g.len)
            if rb is not None:
                a, b = rb
                p = c.st.entails(a) and c.st.entails(b - a) and c.st.entails(g.len - b)
                c.oblige("panic", "slice index range inside slice", p, "" if p else "need %s>=0 and %s>=0" % (show_lin(b - a), show_lin(g.len - b)))
                c.st.add_ge0(b - a)
                c.st.add_ge0(g.len - b)
                return c.ret(VGSlice(g.ety, b - a, g.mut))
    if r is None:
        # non-byte slices: bounds cannot be tracked -> report unless provably fine
        c.oblige("panic", "index on unmodelled slice", False, repr(c.args[0]))
        return c.ret(c.fresh())
    return c.ret(index_region(c, r, c.args[1], "panic", "slice index"))


@M.reg("core::slice::from_raw_parts", "core::slice::from_raw_parts_mut")
def m_from_raw_parts(c):
    p, n = c.args
    if isinstance(p, VPtr) and isinstance(n, VInt):
        c.I.cur_site, c.I.cur_sp = c.site, c.sp
        c.I.prove_range(c.st, "mkslice", "from_raw_parts inside region", p.off, n.lin, p.lo, p.hi, c.site, c.sp)
        return c.ret(VRegion(p.origin, p.off, n.lin, p.mut and c.path.endswith("_mut")))
    c.oblige("mkslice", "from_raw_parts on unmodelled pointer", False, repr(p))
    return c.ret(c.fresh())


def chunk_n(c):
    # const generic N: from callee args
    for a in (c.callee.get("res_args") or c.callee.get("decl_args") or []):
        if "c" in a and a["c"] is not None:
            return a["c"]
    return None


@M.reg("core::slice::<impl [T]>::first_chunk", "core::slice::<impl [T]>::first_chunk_mut")
def m_first_chunk(c):
    r = as_region(c.I, c.st, c.args[0])
    n = chunk_n(c)
    if r is None or n is None:
        return c.ret(c.fresh())
    return fork2(c, f_simplify(("ge", r.len - n)),
                 lambda s: some(c.I, VRegion(r.origin, r.off, Lin.const(n), r.mut), c.dty),
                 lambda s: none(c.I, c.dty))


@M.reg("core::slice::<impl [T]>::last_chunk", "core::slice::<impl [T]>::last_chunk_mut")
def m_last_chunk(c):
    r = as_region(c.I, c.st, c.args[0])
    n = chunk_n(c)
    if r is None or n is None:
        return c.ret(c.fresh())
    return fork2(c, f_simplify(("ge", r.len - n)),
                 lambda s: some(c.I, VRegion(r.origin, r.off + r.len - n, Lin.const(n), r.mut), c.dty),
                 lambda s: none(c.I, c.dty))


@M.reg("core::slice::<impl [T]>::split_first_chunk", "core::slice::<impl [T]>::split_first_chunk_mut")
def m_split_first_chunk(c):
    r = as_region(c.I, c.st, c.args[0])
    n = chunk_n(c)
    if r is None or n is None:
        return c.ret(c.fresh())
    return fork2(c, f_simplify(("ge", r.len - n)),
                 lambda s: some(c.I, VTuple((VRegion(r.origin, r.off, Lin.const(n), r.mut),
                                             VRegion(r.origin, r.off + n, r.len - n, r.mut))), c.dty),
                 lambda s: none(c.I, c.dty))


@M.reg("core::slice::<impl [T]>::split_at_checked", "core::slice::<impl [T]>::split_at_mut_checked")
def m_split_at_checked(c):
    r = as_region(c.I, c.st, c.args[0])
    m = c.args[1]
    if r is None or not isinstance(m, VInt):
        return c.ret(c.fresh())
    return fork2(c, f_simplify(("ge", r.len - m.lin)),
                 lambda s: some(c.I, VTuple((VRegion(r.origin, r.off, m.lin, r.mut),
                                             VRegion(r.origin, r.off + m.lin, r.len - m.lin, r.mut))), c.dty),
                 lambda s: none(c.I, c.dty))


@M.reg("core::slice::<impl [T]>::split_at", "core::slice::<impl [T]>::split_at_mut")
def m_split_at(c):
    r = as_region(c.I, c.st, c.args[0])
    m = c.args[1]
    if r is None or not isinstance(m, VInt):
        c.oblige("panic", "split_at on unmodelled slice", False)
        return c.ret(c.fresh())
    g = r.len - m.lin
    p = c.st.entails(g)
    c.oblige("panic", "split_at mid <= len", p, "" if p else "need %s>=0" % show_lin(g))
    c.st.add_ge0(g)
    return c.ret(VTuple((VRegion(r.origin, r.off, m.lin, r.mut), VRegion(r.origin, r.off + m.lin, r.len - m.lin, r.mut))))


@M.reg("core::slice::<impl [T]>::get", "core::slice::<impl [T]>::get_mut")
def m_get(c):
    r = as_region(c.I, c.st, c.args[0])
    idx = c.args[1]
    if r is None:
        g = as_gslice(c.I, c.st, c.args[0])
        if g is not None and isinstance(idx, VInt):
            return fork2(c, f_simplify(("ge", g.len - idx.lin - 1)), lambda s: some(c.I, gelem_ref(c, s, g), c.dty),
                         lambda s: none(c.I, c.dty))
        return c.ret(c.fresh())
    if isinstance(idx, VInt):
        return fork2(c, f_simplify(("ge", r.len - idx.lin - 1)),
                     lambda s: some(c.I, VByteRef(r.origin, r.off + idx.lin, r.mut), c.dty),
                     lambda s: none(c.I, c.dty))
    rb = range_bounds(c.I, c.st, idx, r.len)
    if rb is None:
        return c.ret(c.fresh())
    a, b = rb
    f = ("and", f_simplify(("ge", b - a)), f_simplify(("ge", r.len - b)))
    return fork2(c, f, lambda s: some(c.I, VRegion(r.origin, r.off + a, b - a, r.mut), c.dty),
                 lambda s: none(c.I, c.dty))


@M.reg("core::slice::<impl [T]>::first", "core::slice::<impl [T]>::last")
def m_first(c):
    r = as_region(c.I, c.st, c.args[0])
    if r is None:
        g = as_gslice(c.I, c.st, c.args[0])
        if g is not None:
            return fork2(c, f_simplify(("ge", g.len - 1)), lambda s: some(c.I, gelem_ref(c, s, g), c.dty),
                         lambda s: none(c.I, c.dty))
        return c.ret(c.fresh())
    off = r.off if c.path.endswith("first") else r.off + r.len - 1
    return fork2(c, f_simplify(("ge", r.len - 1)),
                 lambda s: some(c.I, VByteRef(r.origin, off, r.mut), c.dty),
                 lambda s: none(c.I, c.dty))


@M.reg("core::slice::<impl [T]>::copy_from_slice", "core::slice::<impl [T]>::clone_from_slice")
def m_copy_from_slice(c):
    d = as_region(c.I, c.st, c.args[0])
    s = as_region(c.I, c.st, c.args[1])
    if d is None or s is None:
        c.oblige("panic", "copy_from_slice on unmodelled slices", False)
        return c.ret(VTuple(()))
    g = d.len - s.len
    p = c.st.entails(g) and c.st.entails(-g)
    c.oblige("panic", "copy_from_slice lengths equal", p,
             "" if p else "need %s == 0; facts: %s" % (show_lin(g), c.I.show_facts(c.st, g)), trivial=g.is_const())
    c.st.add_ge0(g)
    c.st.add_ge0(-g)
    # copy content when constant sized and small
    if d.len.is_const() and d.len.c <= 64 and d.origin[0] == "place":
        for i in range(d.len.c):
            c.I.write_byte(c.st, d.origin, d.off + i, c.I.read_byte(c.st, s.origin, s.off + i, s.mut))
    elif c.I.opts.get("split_copy_len") and d.origin[0] == "place" and d.off.is_const():
        # (comparison runs only) a small symbolic length is enumerated so that contents stay tracked
        rg = c.I.int_range(c.st, d.len, cap=64)
        if rg is not None and rg[1] - rg[0] <= 48:
            outs = []
            for n in range(rg[0], rg[1] + 1):
                s2 = c.st.fork()
                try:
                    s2.add_ge0(d.len - n)
                    s2.add_ge0(Lin.const(n) - d.len)
                    if not s2.feasible(list(d.len.atoms())):
                        continue
                except Infeasible:
                    continue
                for i in range(n):
                    c.I.write_byte(s2, d.origin, d.off + i, c.I.read_byte(s2, s.origin, s.off + i, s.mut))
                outs.extend(c.ret_k(s2, VTuple(())))
            return outs
        c.I.havoc_region(c.st, d)
    else:
        c.I.havoc_region(c.st, d)
    return c.ret(VTuple(()))


@M.reg("core::array::<impl [T; N]>::as_slice", "core::array::<impl [T; N]>::as_mut_slice",
       "<arrayvec::ArrayVec<T, CAP> as core::ops::Deref>::deref",
       "<arrayvec::ArrayVec<T, CAP> as core::ops::DerefMut>::deref_mut",
       "arrayvec::ArrayVec::<T, CAP>::as_slice", "arrayvec::ArrayVec::<T, CAP>::as_mut_slice",
       "<alloc::vec::Vec<T, A> as core::ops::Deref>::deref", "<alloc::vec::Vec<T, A> as core::ops::DerefMut>::deref_mut",
       "alloc::vec::Vec::<T, A>::as_slice", "alloc::vec::Vec::<T, A>::as_mut_slice")
def m_as_slice(c):
    r = as_region(c.I, c.st, c.args[0])
    if r is not None:
        return c.ret(r)
    g = as_gslice(c.I, c.st, c.args[0])
    if g is not None:
        return c.ret(g)
    return c.ret(c.fresh())


@M.reg("core::array::<impl core::convert::TryFrom<&[T]> for &[T; N]>::try_from",
       "core::array::<impl core::convert::TryFrom<&mut [T]> for &mut [T; N]>::try_from")
def m_try_from_slice(c):
    r = as_region(c.I, c.st, c.args[0])
    n = chunk_n(c)
    if r is None or n is None:
        return c.ret(c.fresh())
    return fork2(c, f_simplify(("eq", r.len - n)),
                 lambda s: ok(c.I, VRegion(r.origin, r.off, Lin.const(n), r.mut), c.dty),
                 lambda s: err(c.I, VOpaque(None, ("tfe", fresh_id())), c.dty))


# ------------------------------------------------------------------------------------------------- pointers

@M.reg("core::ptr::const_ptr::<impl *const T>::add", "core::ptr::mut_ptr::<impl *mut T>::add")
def m_ptr_add(c):
    p, n = c.args
    if isinstance(p, VPtr) and isinstance(n, VInt):
        c.I.cur_site, c.I.cur_sp = c.site, c.sp
        return c.ret(c.I.ptr_add(c.st, p, n.lin))
    c.oblige("read", "ptr.add on unmodelled pointer", False, repr(p))
    return c.ret(c.fresh())


@M.reg("core::ptr::const_ptr::<impl *const T>::offset_from", "core::ptr::mut_ptr::<impl *mut T>::offset_from")
def m_offset_from(c):
    a, b = c.args
    if isinstance(a, VPtr) and isinstance(b, VPtr) and a.origin == b.origin:
        c.oblige("addr", "offset_from operands derive from the same region", True)
        return c.ret(VInt(a.off - b.off))
    c.oblige("addr", "offset_from operands derive from the same region", False, "%r %r" % (a, b))
    return c.ret(c.fresh())


@M.reg("core::ptr::copy_nonoverlapping", "core::intrinsics::copy_nonoverlapping", "core::ptr::copy")
def m_copy_nonoverlapping(c):
    c.I.cur_site, c.I.cur_sp = c.site, c.sp
    c.I.model_copy(c.st, c.args[0], c.args[1], c.args[2])
    return c.ret(VTuple(()))


@M.reg("core::ptr::const_ptr::<impl *const T>::cast", "core::ptr::mut_ptr::<impl *mut T>::cast",
       "core::ptr::mut_ptr::<impl *mut T>::cast_const", "core::ptr::const_ptr::<impl *const T>::cast_mut")
def m_ptr_cast(c):
    return c.ret(c.args[0])


@M.reg("core::hint::unreachable_unchecked")
def m_unreachable_unchecked(c):
    c.oblige("valid", "unreachable_unchecked is unreachable", False, "state reaching it is feasible; facts: " +
             "; ".join(show_lin(f) + ">=0" for f in c.st.facts[-8:]))
    return []


@M.reg("core::mem::MaybeUninit::<T>::uninit")
def m_mu_uninit(c):
    return c.ret(VAdt("core::mem::MaybeUninit", 0, (UNINIT,), None, None))


@M.reg("core::mem::MaybeUninit::<T>::as_ptr", "core::mem::MaybeUninit::<T>::as_mut_ptr")
def m_mu_as_ptr(c):
    v = c.args[0]
    if isinstance(v, VRef):
        # pointer to the payload place
        tgt = c.I.load(c.st, ("place", v.fid, v.local, v.projs))
        if isinstance(tgt, VAdt) and tgt.path == "core::mem::MaybeUninit":
            return c.ret(VRef(v.fid, v.local, v.projs + (("f", 0, None),), True))
    return c.ret(c.fresh())


@M.reg("core::mem::MaybeUninit::<T>::assume_init")
def m_mu_assume_init(c):
    v = c.args[0]
    if isinstance(v, VAdt) and v.path == "core::mem::MaybeUninit" and v.fields:
        inner = v.fields[0]
        c.oblige("valid", "assume_init on initialised value", inner is not UNINIT and not has_uninit(inner),
                 repr(inner)[:200])
        if inner is UNINIT:
            return c.ret(c.fresh())
        return c.ret(inner)
    c.oblige("valid", "assume_init on unmodelled MaybeUninit", False, repr(v)[:200])
    return c.ret(c.fresh())


def has_uninit(v, d=0):
    if v is UNINIT:
        return True
    if d > 4:
        return False
    if isinstance(v, (VTuple, VClosure)) or (isinstance(v, VAdt) and v.fields is not None):
        return any(has_uninit(f, d + 1) for f in v.fields)
    if isinstance(v, VArray) and v.elems is not None:
        return any(has_uninit(f, d + 1) for f in v.elems)
    return False


# ------------------------------------------------------------------------------------------------- integers

@M.regp(r"^core::num::<impl (u16|u32|u64|u128|i16|i32|i64)>::to_(be|ne|le)_bytes$")
def m_to_bytes(c):
    m = re.search(r"<impl (\w+)>::to_(\w+)_bytes", c.path)
    ty, end = m.group(1), m.group(2)
    n = INT_BITS[ty] // 8
    v = c.args[0]
    if end == "ne":
        end = "le"
    if isinstance(v, VInt):
        out = []
        for i in range(n):
            sh = 8 * (n - 1 - i) if end == "be" else 8 * i
            x = c.I.int_binop(c.st, "Shr", v.lin, Lin.const(sh), ty) if sh else v.lin
            c.I.add_def_facts(c.st, x)
            lo, hi = static_bounds(x)
            if hi is None or hi > 255 or lo is None or lo < 0:
                x = c.I.bitand(x, Lin.const(255), ty, c.st)
                c.I.add_def_facts(c.st, x)
            out.append(VInt(x))
        return c.ret(VArray(tuple(out), n, None, "u8"))
    return c.ret(c.fresh())


@M.regp(r"^core::num::<impl (u16|u32|u64|u128|i16|i32|i64)>::from_(be|ne|le)_bytes$")
def m_from_bytes(c):
    m = re.search(r"<impl (\w+)>::from_(\w+)_bytes", c.path)
    ty, end = m.group(1), m.group(2)
    n = INT_BITS[ty] // 8
    v = c.args[0]
    if end == "ne":
        end = "le"
    if isinstance(v, VRegion) and v.len.is_const() and v.len.c == n:
        v = VArray(tuple(c.I.region_bytes(c.st, v, n)), n, None, "u8")
    if isinstance(v, VArray) and v.elems is not None and all(isinstance(e, VInt) for e in v.elems) and \
            INT_TYPES[ty][0] == 0:
        r = Lin.const(0)
        for i, e in enumerate(v.elems):
            sh = 8 * (n - 1 - i) if end == "be" else 8 * i
            r = r + e.lin.scale(1 << sh)
        return c.ret(VInt(r))
    return c.ret(c.fresh())


@M.regp(r"^core::num::<impl (u16|u32|u64)>::(to_be|from_be|swap_bytes)$")
def m_to_be(c):
    # byte swap on little endian targets
    m = re.search(r"<impl (\w+)>", c.path)
    ty = m.group(1)
    n = INT_BITS[ty] // 8
    v = c.args[0]
    if isinstance(v, VInt):
        r = Lin.const(0)
        for i in range(n):
            x = c.I.int_binop(c.st, "Shr", v.lin, Lin.const(8 * i), ty) if i else v.lin
            lo, hi = static_bounds(x)
            if hi is None or hi > 255:
                x = c.I.bitand(x, Lin.const(255), ty, c.st)
            r = r + x.scale(1 << (8 * (n - 1 - i)))
        return c.ret(VInt(r))
    return c.ret(c.fresh())


@M.regp(r"^core::convert::num::<impl core::convert::From<(\w+)> for (\w+)>::from$")
def m_from_num(c):
    v = c.args[0]
    if isinstance(v, VBool):
        if v.f[0] == "c":
            return c.ret(VInt(Lin.const(1 if v.f[1] else 0)))
        return c.ret(VInt(Lin.atom(reg_atom(("b2i", fresh_id()), 0, 1))))
    return c.ret(v)


@M.regp(r"^core::convert::num::(ptr_try_from_impls::)?<impl core::convert::TryFrom<(\w+)> for (\w+)>::try_from$")
def m_try_from_num(c):
    m = re.search(r"TryFrom<(\w+)> for (\w+)>", c.path)
    dst = m.group(2)
    v = c.args[0]
    if isinstance(v, VInt) and dst in INT_TYPES:
        lo, hi = INT_TYPES[dst]
        f = ("and", f_simplify(("ge", v.lin - lo)), f_simplify(("ge", Lin.const(hi) - v.lin)))
        return fork2(c, f, lambda s: ok(c.I, VInt(v.lin), c.dty),
                     lambda s: err(c.I, VOpaque(None, ("tfie", fresh_id())), c.dty))
    return c.ret(c.fresh())


@M.regp(r"^core::num::<impl (\w+)>::checked_(add|sub|mul)$")
def m_checked(c):
    m = re.search(r"<impl (\w+)>::checked_(\w+)", c.path)
    ty, op = m.group(1), m.group(2)
    a, b = c.args
    if isinstance(a, VInt) and isinstance(b, VInt):
        lo, hi = INT_TYPES[ty]
        r = a.lin + b.lin if op == "add" else a.lin - b.lin if op == "sub" else c.I.mul(a.lin, b.lin)
        f = ("and", f_simplify(("ge", r - lo)), f_simplify(("ge", Lin.const(hi) - r)))
        return fork2(c, f, lambda s: some(c.I, VInt(r), c.dty), lambda s: none(c.I, c.dty))
    return c.ret(c.fresh())


@M.regp(r"^core::num::<impl (\w+)>::overflowing_(add|sub)$")
def m_overflowing(c):
    m = re.search(r"<impl (\w+)>::overflowing_(\w+)", c.path)
    ty, op = m.group(1), m.group(2)
    a, b = c.args
    if isinstance(a, VInt) and isinstance(b, VInt) and INT_TYPES[ty][0] == 0:
        lo, hi = INT_TYPES[ty]
        r = a.lin + b.lin if op == "add" else a.lin - b.lin
        if c.st.entails(r - lo) and c.st.entails(Lin.const(hi) - r):
            return c.ret(VTuple((VInt(r), VBool(FALSE))))
        # wrapped = r -/+ 2^bits * carry with carry in {0,1}
        cy = reg_atom(("b2i", fresh_id()), 0, 1)
        w = r - Lin.atom(cy).scale(hi + 1) if op == "add" else r + Lin.atom(cy).scale(hi + 1)
        c.st.add_ge0(w)
        c.st.add_ge0(Lin.const(hi) - w)
        return c.ret(VTuple((VInt(w), VBool(("ge", Lin.atom(cy) - 1)))))
    return c.ret(c.fresh())


@M.regp(r"^core::num::<impl (\w+)>::saturating_(add|sub)$")
def m_saturating(c):
    m = re.search(r"<impl (\w+)>::saturating_(\w+)", c.path)
    ty, op = m.group(1), m.group(2)
    a, b = c.args
    if isinstance(a, VInt) and isinstance(b, VInt):
        lo, hi = INT_TYPES[ty]
        r = a.lin + b.lin if op == "add" else a.lin - b.lin
        if c.st.entails(r - lo) and c.st.entails(Lin.const(hi) - r):
            return c.ret(VInt(r))
        x = reg_atom(("sat", r.key(), ty), lo, hi)
        if op == "add":
            c.st.add_ge0(r - Lin.atom(x))
        else:
            c.st.add_ge0(Lin.atom(x) - r)
        return c.ret(VInt(Lin.atom(x)))
    return c.ret(c.fresh())


@M.regp(r"^core::num::<impl (\w+)>::wrapping_(add|sub|mul)$")
def m_wrapping(c):
    m = re.search(r"<impl (\w+)>::wrapping_(\w+)", c.path)
    ty, op = m.group(1), m.group(2)
    a, b = c.args
    if isinstance(a, VInt) and isinstance(b, VInt):
        return c.ret(VInt(c.I.int_binop(c.st, {"add": "Add", "sub": "Sub", "mul": "Mul"}[op], a.lin, b.lin, ty)))
    return c.ret(c.fresh())


@M.reg("core::cmp::min", "core::cmp::max", "core::cmp::Ord::min", "core::cmp::Ord::max")
def m_minmax(c):
    a, b = c.args
    if isinstance(a, VInt) and isinstance(b, VInt):
        ismin = c.path.endswith("min")
        f = f_simplify(("ge", b.lin - a.lin))  # a <= b
        if ismin:
            return fork2(c, f, lambda s: a, lambda s: b)
        return fork2(c, f, lambda s: b, lambda s: a)
    return c.ret(c.fresh())


@M.regp(r"^<&u8 as core::ops::(BitAnd|Shr|Shl|BitOr)<(\w+)>>::(bitand|shr|shl|bitor)$")
def m_ref_ops(c):
    a = deref(c.I, c.st, c.args[0])
    b = c.args[1]
    op = {"bitand": "BitAnd", "shr": "Shr", "shl": "Shl", "bitor": "BitOr"}[c.path.rsplit("::", 1)[1]]
    if isinstance(a, VInt) and isinstance(b, VInt):
        r = c.I.int_binop(c.st, op, a.lin, b.lin, "u8")
        c.I.add_def_facts(c.st, r)
        return c.ret(VInt(r))
    return c.ret(c.fresh())


@M.regp(r"^<(u8|u16|u32|u64|usize|i32|i64|bool) as core::default::Default>::default$")
def m_default_prim(c):
    if "bool" in c.path:
        return c.ret(VBool(FALSE))
    return c.ret(VInt(Lin.const(0)))


@M.reg("<core::option::Option<T> as core::default::Default>::default")
def m_default_option(c):
    return c.ret(none(c.I, c.dty))


@M.regp(r"^core::array::<impl core::default::Default for \[T; .*\]>::default$")
def m_default_array(c):
    t = c.I.rt(c.dty)
    if isinstance(t, dict) and t["k"] == "array" and t["len"] is not None and t["len"] <= 64 and c.I.ty_is_int(t["of"]):
        return c.ret(VArray(tuple(VInt(Lin.const(0)) for _ in range(t["len"])), t["len"], None, c.I.rt(t["of"])))
    return c.ret(c.fresh())


@M.reg("core::slice::<impl core::default::Default for &[T]>::default")
def m_default_slice(c):
    return c.ret(VRegion(("empty",), Lin.const(0), Lin.const(0), False))


# ------------------------------------------------------------------------------------------------- clone / cmp / hash / fmt

@M.regp(r"^core::clone::impls::<impl core::clone::Clone for .*>::clone$")
def m_clone_prim(c):
    return c.ret(deref(c.I, c.st, c.args[0]))


@M.reg("core::array::<impl core::clone::Clone for [T; N]>::clone", "<core::option::Option<T> as core::clone::Clone>::clone",
       "<arrayvec::ArrayVec<T, CAP> as core::clone::Clone>::clone", "<alloc::vec::Vec<T, A> as core::clone::Clone>::clone",
       "<core::result::Result<T, E> as core::clone::Clone>::clone", "<core::net::Ipv6Addr as core::clone::Clone>::clone",
       "<core::net::Ipv4Addr as core::clone::Clone>::clone",
       "<std::collections::HashMap<K, V, S, A> as core::clone::Clone>::clone")
def m_clone_struct(c):
    v = deref(c.I, c.st, c.args[0])
    if isinstance(v, VVec) and v.kind == "vec":
        # cloned Vec: same length, capacity >= len (unknown)
        key = ("vclone", fresh_id())
        cp = reg_atom(("cap", key), 0, I64MAX)
        c.st.add_ge0(Lin.atom(cp) - v.len)
        return c.ret(VVec("vec", v.len, Lin.atom(cp), key, v.elems))
    return c.ret(v)


@M.reg("core::clone::Clone::clone")
def m_clone_generic(c):
    return c.ret(c.fresh())


_CMP_RX = (r"(core::cmp::impls::<impl core::cmp::(PartialEq|PartialOrd|Ord)(<.*>)? for .*>::\w+$)|"
           r"(^core::array::equality::)|(^core::array::<impl core::cmp::)|(^core::slice::cmp::)|"
           r"(^<core::option::Option<T> as core::cmp::)|(^<core::net::\w+ as core::cmp::)|"
           r"(^<arrayvec::ArrayVec<T, CAP> as core::cmp::)|(^alloc::vec::partial_eq::)|(^<alloc::vec::Vec<T, A\d?> as core::cmp::)|"
           r"(^core::cmp::(PartialEq|PartialOrd|Ord)::\w+$)|(^<core::result::Result<T, E> as core::cmp::)")


@M.regp(_CMP_RX)
def m_cmp(c):
    # comparison of two values behind references
    name = c.path.rsplit("::", 1)[1]
    a = c.args[0]
    b = c.args[1] if len(c.args) > 1 else None
    for _ in range(3):
        na, nb = deref(c.I, c.st, a), deref(c.I, c.st, b)
        if na is a and nb is b:
            break
        a, b = na, nb
    if name in ("eq", "ne"):
        if isinstance(a, VInt) and isinstance(b, VInt):
            return c.ret(VBool(cmp_formula("Eq" if name == "eq" else "Ne", a.lin, b.lin)))
        if isinstance(a, VBool) and isinstance(b, VBool) and a.f[0] == "c" and b.f[0] == "c":
            return c.ret(VBool(("c", (a.f[1] == b.f[1]) == (name == "eq"))))
        # small byte arrays / constant-length slices: element-wise
        ea, eb = small_bytes(c, a), small_bytes(c, b)
        if ea is not None and eb is not None and len(ea) == len(eb):
            f = ("c", True)
            for x, y in zip(ea, eb):
                g = cmp_formula("Eq", x.lin, y.lin)
                f = g if f == ("c", True) else ("and", f, g)
            f = f_simplify(f)
            return c.ret(VBool(f if name == "eq" else f_not(f)))
        # local PartialEq impl?  dispatch through &A == &B wrappers
        r = dispatch_local_trait(c, "core::cmp::PartialEq", name, a, b)
        if r is not None:
            return r
        return c.ret(unknown_bool())
    if name in ("lt", "le", "gt", "ge"):
        if isinstance(a, VInt) and isinstance(b, VInt):
            return c.ret(VBool(cmp_formula(name.capitalize(), a.lin, b.lin)))
        return c.ret(unknown_bool())
    return c.ret(c.fresh())


def small_bytes(c, v):
    """list of VInt of a small byte array value / constant-length region (None otherwise)"""
    if isinstance(v, VArray) and v.elems is not None and len(v.elems) <= 16 and all(isinstance(e, VInt) for e in v.elems):
        return list(v.elems)
    if isinstance(v, VRegion) and v.len.is_const() and v.len.c <= 16:
        bs = c.I.region_bytes(c.st, v, v.len.c)
        if all(isinstance(e, VInt) for e in bs):
            return bs
    return None


def dispatch_local_trait(c, trait, method, a, b):
    """call `<A as trait>::method(&a, &b)` when A is a crate-local type with such an impl"""
    if not isinstance(a, VAdt):
        return None
    I = c.I
    key = (a.path, trait, method)
    body = I.trait_impl_index().get(key)
    if body is None:
        return None
    oa, ob = ("tmp", fresh_id()), ("tmp", fresh_id())
    c.st.heap[oa] = a
    c.st.heap[ob] = b
    return I.call_body(c.st, body, [VRef(0, oa, ()), VRef(0, ob, ())], c.dty, c.ret_k, c.site)


@M.regp(r"(^core::hash::)|(as core::hash::Hash>::hash$)|(core::hash::Hash for .*>::hash$)")
def m_hash(c):
    return c.ret(VTuple(()))


@M.regp(r"^core::fmt::|^<.* as core::fmt::(Display|Debug|UpperHex|LowerHex)>::fmt$|^alloc::fmt::|^alloc::string::|^<alloc::string::String")
def m_fmt(c):
    return c.ret(c.fresh("fmt"))


@M.regp(r"^core::panicking::|^core::option::(unwrap_failed|expect_failed)|^core::result::unwrap_failed|^std::rt::begin_panic|^core::slice::index::slice_")
def m_panic(c):
    c.oblige("panic", "panic call " + c.path.rsplit("::", 1)[1] + " unreachable", False,
             "reached with facts: " + "; ".join(show_lin(f) + ">=0" for f in c.st.facts[-10:]))
    return []


# ------------------------------------------------------------------------------------------------- Option / Result

def with_variants(c, v, handler):
    """handler(state, value_with_known_variant, variant_name) -> list of states"""
    I = c.I
    sv = split_variants(I, c.st, v)
    if sv is None:
        return None
    out = []
    for s2, vv in sv:
        out.extend(handler(s2, vv, variant_name(I, vv)))
    return out


def m_unwrap_like(c, good, what, kind="panic"):
    v = c.args[0]

    def h(s2, vv, name):
        if name == good:
            return c.ret_k(s2, vv.fields[0])
        c.I.cur_site, c.I.cur_sp = c.site, c.sp
        c.I.oblige(s2, kind, what, False, c.site, c.sp,
                   "value may be %s; facts: %s" % (name, "; ".join(show_lin(f) + ">=0" for f in s2.facts[-8:])),
                   expn=c.expn)
        return []
    r = with_variants(c, v, h)
    if r is None:
        c.oblige(kind, what + " (unmodelled value)", False, repr(v)[:100])
        return c.ret(c.fresh())
    if isinstance(v, VAdt) and v.variant is not None and variant_name(c.I, v) == good:
        c.oblige(kind, what, True, trivial=True)
    elif r:
        # count a proved obligation when the bad variant was infeasible on every path
        pass
    return r


@M.reg("core::option::Option::<T>::unwrap")
def m_opt_unwrap(c):
    return m_unwrap_like(c, "Some", "Option::unwrap on Some")


@M.reg("core::option::Option::<T>::expect")
def m_opt_expect(c):
    return m_unwrap_like(c, "Some", "Option::expect on Some")


@M.reg("core::result::Result::<T, E>::unwrap")
def m_res_unwrap(c):
    return m_unwrap_like(c, "Ok", "Result::unwrap on Ok")


@M.reg("core::result::Result::<T, E>::expect")
def m_res_expect(c):
    return m_unwrap_like(c, "Ok", "Result::expect on Ok")


@M.reg("core::result::Result::<T, E>::unwrap_unchecked")
def m_res_unwrap_unchecked(c):
    return m_unwrap_like(c, "Ok", "Result::unwrap_unchecked on Ok", kind="valid")


@M.reg("core::option::Option::<T>::unwrap_unchecked")
def m_opt_unwrap_unchecked(c):
    return m_unwrap_like(c, "Some", "Option::unwrap_unchecked on Some", kind="valid")


@M.reg("core::result::Result::<T, E>::unwrap_err", "core::result::Result::<T, E>::expect_err")
def m_res_unwrap_err(c):
    return m_unwrap_like(c, "Err", "Result::unwrap_err on Err")


def is_variant_model(names):
    def m(c):
        v = deref(c.I, c.st, c.args[0])
        if isinstance(v, VAdt):
            if v.variant is not None:
                return c.ret(VBool(("c", variant_name(c.I, v) in names)))
            adt = c.I.F.adts.get(v.path)
            da = c.I.discr_atom(v)
            f = None
            for var in adt["variants"]:
                if var["name"] in names:
                    g = ("eq", Lin.atom(da) - var["discr"])
                    f = g if f is None else ("or", f, g)
            return c.ret(VBool(f))
        return c.ret(unknown_bool())
    return m


M.exact["core::option::Option::<T>::is_some"] = is_variant_model({"Some"})
M.exact["core::option::Option::<T>::is_none"] = is_variant_model({"None"})
M.exact["core::result::Result::<T, E>::is_ok"] = is_variant_model({"Ok"})
M.exact["core::result::Result::<T, E>::is_err"] = is_variant_model({"Err"})


@M.reg("core::option::Option::<T>::as_ref", "core::option::Option::<T>::as_mut",
       "core::result::Result::<T, E>::as_ref", "core::result::Result::<T, E>::as_mut")
def m_as_ref(c):
    r = c.args[0]
    if not isinstance(r, VRef):
        return c.ret(c.fresh())
    v = deref(c.I, c.st, r)

    def h(s2, vv, name):
        if vv.fields:
            # make sure the place holds the refined variant so the inner reference is meaningful
            c.I.store(s2, ("place", r.fid, r.local, r.projs), vv)
            inner = VRef(r.fid, r.local, r.projs + (("dc", vv.variant), ("f", 0, None)), r.mut)
            iv = vv.fields[0]
            if isinstance(iv, (VRegion, VByteRef)) and False:
                inner = iv
            return c.ret_k(s2, VAdt(vv.path, vv.variant, (inner,), None, c.dty))
        return c.ret_k(s2, VAdt(vv.path, vv.variant, (), None, c.dty))
    res = with_variants(c, v, h)
    return res if res is not None else c.ret(c.fresh())


@M.reg("core::option::Option::<T>::unwrap_or", "core::result::Result::<T, E>::unwrap_or")
def m_unwrap_or(c):
    v, d = c.args

    def h(s2, vv, name):
        return c.ret_k(s2, vv.fields[0] if name in ("Some", "Ok") else d)
    res = with_variants(c, v, h)
    return res if res is not None else c.ret(c.fresh())


@M.reg("core::option::Option::<T>::unwrap_or_default", "core::result::Result::<T, E>::unwrap_or_default")
def m_unwrap_or_default(c):
    v = c.args[0]

    def h(s2, vv, name):
        if name in ("Some", "Ok"):
            return c.ret_k(s2, vv.fields[0])
        t = c.I.rt(c.dty)
        if c.I.ty_is_int(t):
            return c.ret_k(s2, VInt(Lin.const(0)))
        return c.ret_k(s2, c.I.materialize(s2, c.dty, ("uod", fresh_id())))
    res = with_variants(c, v, h)
    return res if res is not None else c.ret(c.fresh())


def call_closure_then(c, st, f, args, then):
    """call closure value f with args in state st, then continue with then(state, result)->states"""
    def k(s2, val):
        return then(s2, val)
    # result type unknown here: use None
    return c.I.call_value(st, f, [VTuple(args)] if False else list(args), None, k, c.site)


def map_model(good, wrap_same):
    """Option::map / Result::map / Result::map_err"""
    def m(c):
        v, f = c.args

        def h(s2, vv, name):
            if name == good:
                def then(s3, val):
                    return c.ret_k(s3, VAdt(vv.path, vv.variant, (val,), None, c.dty))
                return call_closure_then(c, s2, f, [vv.fields[0]], then)
            return c.ret_k(s2, VAdt(vv.path, vv.variant, vv.fields, None, c.dty))
        res = with_variants(c, v, h)
        return res if res is not None else c.ret(c.fresh())
    return m


M.exact["core::option::Option::<T>::map"] = map_model("Some", True)
M.exact["core::result::Result::<T, E>::map"] = map_model("Ok", True)
M.exact["core::result::Result::<T, E>::map_err"] = map_model("Err", True)


@M.reg("core::option::Option::<T>::and_then", "core::result::Result::<T, E>::and_then")
def m_and_then(c):
    v, f = c.args

    def h(s2, vv, name):
        if name in ("Some", "Ok"):
            return call_closure_then(c, s2, f, [vv.fields[0]], lambda s3, val: c.ret_k(s3, val))
        return c.ret_k(s2, VAdt(vv.path, vv.variant, vv.fields, None, c.dty))
    res = with_variants(c, v, h)
    return res if res is not None else c.ret(c.fresh())


@M.reg("core::option::Option::<T>::unwrap_or_else", "core::result::Result::<T, E>::unwrap_or_else")
def m_unwrap_or_else(c):
    v, f = c.args

    def h(s2, vv, name):
        if name in ("Some", "Ok"):
            return c.ret_k(s2, vv.fields[0])
        return call_closure_then(c, s2, f, list(vv.fields), lambda s3, val: c.ret_k(s3, val))
    res = with_variants(c, v, h)
    return res if res is not None else c.ret(c.fresh())


@M.reg("core::option::Option::<T>::ok_or")
def m_ok_or(c):
    v, e = c.args

    def h(s2, vv, name):
        if name == "Some":
            return c.ret_k(s2, ok(c.I, vv.fields[0], c.dty))
        return c.ret_k(s2, err(c.I, e, c.dty))
    res = with_variants(c, v, h)
    return res if res is not None else c.ret(c.fresh())


@M.reg("core::option::Option::<T>::ok_or_else")
def m_ok_or_else(c):
    v, f = c.args

    def h(s2, vv, name):
        if name == "Some":
            return c.ret_k(s2, ok(c.I, vv.fields[0], c.dty))
        return call_closure_then(c, s2, f, [], lambda s3, val: c.ret_k(s3, err(c.I, val, c.dty)))
    res = with_variants(c, v, h)
    return res if res is not None else c.ret(c.fresh())


@M.reg("core::result::Result::<T, E>::ok")
def m_res_ok(c):
    v = c.args[0]

    def h(s2, vv, name):
        if name == "Ok":
            return c.ret_k(s2, some(c.I, vv.fields[0], c.dty))
        return c.ret_k(s2, none(c.I, c.dty))
    res = with_variants(c, v, h)
    return res if res is not None else c.ret(c.fresh())


@M.reg("core::result::Result::<T, E>::err")
def m_res_err(c):
    v = c.args[0]

    def h(s2, vv, name):
        if name == "Err":
            return c.ret_k(s2, some(c.I, vv.fields[0], c.dty))
        return c.ret_k(s2, none(c.I, c.dty))
    res = with_variants(c, v, h)
    return res if res is not None else c.ret(c.fresh())


@M.reg("core::option::Option::<&T>::copied", "core::option::Option::<&T>::cloned",
       "core::option::Option::<&mut T>::copied")
def m_copied(c):
    v = c.args[0]

    def h(s2, vv, name):
        if name == "Some":
            return c.ret_k(s2, some(c.I, deref(c.I, s2, vv.fields[0]), c.dty))
        return c.ret_k(s2, none(c.I, c.dty))
    res = with_variants(c, v, h)
    return res if res is not None else c.ret(c.fresh())


@M.reg("<core::result::Result<T, E> as core::ops::Try>::branch")
def m_try_branch_result(c):
    v = c.args[0]

    def h(s2, vv, name):
        if name == "Ok":
            return c.ret_k(s2, mk(c.I, CFLOW, "Continue", [vv.fields[0]], c.dty))
        return c.ret_k(s2, mk(c.I, CFLOW, "Break", [VAdt(RESULT, vv.variant, vv.fields, None, None)], c.dty))
    res = with_variants(c, v, h)
    return res if res is not None else c.ret(c.fresh())


@M.reg("<core::option::Option<T> as core::ops::Try>::branch")
def m_try_branch_option(c):
    v = c.args[0]

    def h(s2, vv, name):
        if name == "Some":
            return c.ret_k(s2, mk(c.I, CFLOW, "Continue", [vv.fields[0]], c.dty))
        return c.ret_k(s2, mk(c.I, CFLOW, "Break", [VAdt(OPTION, vv.variant, (), None, None)], c.dty))
    res = with_variants(c, v, h)
    return res if res is not None else c.ret(c.fresh())


@M.reg("<core::option::Option<T> as core::ops::FromResidual<core::option::Option<core::convert::Infallible>>>::from_residual")
def m_from_residual_option(c):
    return c.ret(none(c.I, c.dty))


@M.reg("<core::result::Result<T, F> as core::ops::FromResidual<core::result::Result<core::convert::Infallible, E>>>::from_residual")
def m_from_residual_result(c):
    v = c.args[0]
    if isinstance(v, VAdt) and v.fields:
        e = v.fields[0]
    else:
        e = VOpaque(None, ("res", fresh_id()))
    # conversion E -> F through From
    ra = c.callee.get("res_args") or []
    tys = [c.I.rt(a["t"]) for a in ra if "t" in a]
    if len(tys) == 3:
        T, E, F = tys
        se, sf = c.I.tstr(E), c.I.tstr(F)
        if se != sf:
            body = c.I.from_impl_index().get((sf, se))
            if body is not None:
                return c.I.call_body(c.st, body, [e], F, lambda s3, val: c.ret_k(s3, err(c.I, val, c.dty)), c.site,
                                     force=True)
            return c.ret(err(c.I, c.I.materialize(c.st, F, ("conv", fresh_id())), c.dty))
    return c.ret(err(c.I, e, c.dty))


@M.reg("<T as core::convert::Into<U>>::into", "<T as core::convert::From<T>>::from")
def m_into(c):
    v = c.args[0]
    ra = c.callee.get("res_args") or []
    tys = [c.I.rt(a["t"]) for a in ra if "t" in a]
    if c.path.endswith("From<T>>::from"):
        return c.ret(v)
    if len(tys) == 2:
        T, U = tys
        st, su = c.I.tstr(T), c.I.tstr(U)
        if st == su:
            return c.ret(v)
        if isinstance(T, str) and isinstance(U, str) and T in INT_TYPES and U in INT_TYPES:
            return c.ret(v)
        if T == "bool" and isinstance(U, str) and U in INT_TYPES:
            return m_from_num(c)
        body = c.I.from_impl_index().get((su, st))
        if body is not None:
            return c.I.call_body(c.st, body, [v], c.dty, c.ret_k, c.site)
        if su.startswith("arrayvec::") and isinstance(v, VArray):
            return m_av_from(c)
        if su.startswith("core::net::") or st.startswith("core::net::"):
            return c.ret(c.fresh())
    return c.ret(c.fresh())


@M.reg("<T as core::convert::TryInto<U>>::try_into")
def m_try_into(c):
    v = c.args[0]
    ra = c.callee.get("res_args") or []
    tys = [c.I.rt(a["t"]) for a in ra if "t" in a]
    if len(tys) == 2:
        T, U = tys
        if isinstance(U, str) and U in INT_TYPES and isinstance(v, VInt):
            lo, hi = INT_TYPES[U]
            f = ("and", f_simplify(("ge", v.lin - lo)), f_simplify(("ge", Lin.const(hi) - v.lin)))
            return fork2(c, f, lambda s: ok(c.I, VInt(v.lin), c.dty),
                         lambda s: err(c.I, VOpaque(None, ("tie", fresh_id())), c.dty))
        r = as_region(c.I, c.st, v)
        if r is not None and isinstance(U, dict) and U["k"] == "ref":
            to = c.I.rt(U["to"])
            if isinstance(to, dict) and to["k"] == "array" and to["len"] is not None:
                n = to["len"]
                return fork2(c, f_simplify(("eq", r.len - n)),
                             lambda s: ok(c.I, VRegion(r.origin, r.off, Lin.const(n), r.mut), c.dty),
                             lambda s: err(c.I, VOpaque(None, ("tfe", fresh_id())), c.dty))
        body = c.I.tryfrom_impl_index().get((c.I.tstr(U), c.I.tstr(T)))
        if body is not None:
            return c.I.call_body(c.st, body, [v], c.dty, c.ret_k, c.site)
    return c.ret(c.fresh())


@M.reg("core::ops::FnOnce::call_once", "core::ops::FnMut::call_mut", "core::ops::Fn::call")
def m_fn_call(c):
    f = c.args[0]
    tup = c.args[1] if len(c.args) > 1 else VTuple(())
    args = list(tup.fields) if isinstance(tup, VTuple) else []
    return c.I.call_value(c.st, f, args, c.dty, c.ret_k, c.site)


# ------------------------------------------------------------------------------------------------- ArrayVec / Vec

def dty_elem(c):
    t = c.I.rt(c.dty)
    if isinstance(t, dict) and t.get("args"):
        for a in t["args"]:
            if "t" in a:
                return c.I.rt(a["t"])
    return None


def vec_ref(c, i=0):
    r = c.args[i]
    if isinstance(r, VRef):
        v = c.I.load(c.st, ("place", r.fid, r.local, r.projs))
        if isinstance(v, VVec):
            return r, v
    if isinstance(r, VVec):
        return None, r
    return None, None


def vec_store(c, r, v, st=None):
    c.I.store(st if st is not None else c.st, ("place", r.fid, r.local, r.projs), v)


@M.reg("arrayvec::ArrayVec::<T, CAP>::new", "arrayvec::ArrayVec::<T, CAP>::new_const")
def m_av_new(c):
    v = c.I.materialize(c.st, c.dty, ("avnew", fresh_id()))
    if isinstance(v, VVec):
        data = None
        if v.cap.is_const() and v.cap.c <= 64 and v.elems == "u8":
            data = (None,) * v.cap.c
        return c.ret(VVec("arrayvec", Lin.const(0), v.cap, v.key, v.elems, data))
    return c.ret(v)


@M.reg("<arrayvec::ArrayVec<T, CAP> as core::convert::From<[T; CAP]>>::from")
def m_av_from(c):
    v = c.I.materialize(c.st, c.dty, ("avfrom", fresh_id()))
    if isinstance(v, VVec):
        src = c.args[0]
        data = None
        if isinstance(src, VArray) and src.elems is not None and v.cap.is_const() and len(src.elems) == v.cap.c <= 64:
            data = tuple(src.elems)
        return c.ret(VVec("arrayvec", v.cap, v.cap, v.key, v.elems, data))
    return c.ret(v)


def av_put(v, pos, vals):
    """data of ArrayVec v after storing vals at constant position pos (None when untracked)"""
    if v.data is None or pos is None:
        return None
    d = list(v.data)
    for i, x in enumerate(vals):
        if pos + i < len(d):
            d[pos + i] = x
    return tuple(d)


def av_pos(v):
    return v.len.c if v.len.is_const() else None


@M.reg("arrayvec::ArrayVec::<T, CAP>::len", "alloc::vec::Vec::<T, A>::len")
def m_vec_len(c):
    _, v = vec_ref(c)
    if v is not None:
        return c.ret(VInt(v.len))
    return c.ret(c.fresh())


@M.reg("alloc::vec::Vec::<T, A>::capacity", "arrayvec::ArrayVec::<T, CAP>::capacity")
def m_vec_cap(c):
    _, v = vec_ref(c)
    if v is not None:
        return c.ret(VInt(v.cap))
    return c.ret(c.fresh())


@M.reg("arrayvec::ArrayVec::<T, CAP>::is_full")
def m_av_is_full(c):
    _, v = vec_ref(c)
    if v is not None:
        return c.ret(VBool(f_simplify(("eq", v.cap - v.len))))
    return c.ret(unknown_bool())


@M.reg("arrayvec::ArrayVec::<T, CAP>::is_empty", "alloc::vec::Vec::<T, A>::is_empty")
def m_vec_is_empty(c):
    _, v = vec_ref(c)
    if v is not None:
        return c.ret(VBool(f_simplify(("eq", v.len))))
    return c.ret(unknown_bool())


@M.reg("arrayvec::ArrayVec::<T, CAP>::remaining_capacity")
def m_av_remaining(c):
    _, v = vec_ref(c)
    if v is not None:
        return c.ret(VInt(v.cap - v.len))
    return c.ret(c.fresh())


@M.reg("arrayvec::ArrayVec::<T, CAP>::push_unchecked")
def m_av_push_unchecked(c):
    r, v = vec_ref(c)
    if v is None or r is None:
        c.oblige("push", "push_unchecked on unmodelled ArrayVec", False)
        return c.ret(VTuple(()))
    g = v.cap - v.len - 1
    p = c.st.entails(g)
    c.oblige("push", "push_unchecked: len < CAP", p, "" if p else "need %s>=0; facts: %s" % (show_lin(g), c.I.show_facts(c.st, g)))
    vec_store(c, r, VVec(v.kind, v.len + 1, v.cap, v.key, v.elems, av_put(v, av_pos(v), [c.args[1]])))
    return c.ret(VTuple(()))


@M.reg("arrayvec::ArrayVec::<T, CAP>::push")
def m_av_push(c):
    r, v = vec_ref(c)
    if v is None or r is None:
        c.oblige("panic", "push on unmodelled ArrayVec", False)
        return c.ret(VTuple(()))
    g = v.cap - v.len - 1
    p = c.st.entails(g)
    c.oblige("panic", "ArrayVec::push: len < CAP", p, "" if p else "need %s>=0" % show_lin(g))
    c.st.add_ge0(g)
    vec_store(c, r, VVec(v.kind, v.len + 1, v.cap, v.key, v.elems, av_put(v, av_pos(v), [c.args[1]])))
    return c.ret(VTuple(()))


@M.reg("arrayvec::ArrayVec::<T, CAP>::try_push")
def m_av_try_push(c):
    r, v = vec_ref(c)
    if v is None or r is None:
        return c.ret(c.fresh())

    def okv(s):
        vec_store(c, r, VVec(v.kind, v.len + 1, v.cap, v.key, v.elems, av_put(v, av_pos(v), [c.args[1]])), s)
        return ok(c.I, VTuple(()), c.dty)
    return fork2(c, f_simplify(("ge", v.cap - v.len - 1)), okv,
                 lambda s: err(c.I, VOpaque(None, ("cap", fresh_id())), c.dty))


@M.reg("arrayvec::ArrayVec::<T, CAP>::set_len", "alloc::vec::Vec::<T, A>::set_len")
def m_set_len(c):
    r, v = vec_ref(c)
    n = c.args[1]
    if v is None or r is None or not isinstance(n, VInt):
        c.oblige("setlen", "set_len on unmodelled vector", False)
        return c.ret(VTuple(()))
    g = v.cap - n.lin
    p = c.st.entails(g)
    c.oblige("setlen", "set_len: new_len <= capacity", p,
             "" if p else "need %s>=0; facts: %s" % (show_lin(g), c.I.show_facts(c.st, g)), trivial=g.is_const())
    vec_store(c, r, VVec(v.kind, n.lin, v.cap, v.key, v.elems, v.data))
    return c.ret(VTuple(()))


@M.reg("arrayvec::ArrayVec::<T, CAP>::try_extend_from_slice")
def m_av_try_extend(c):
    r, v = vec_ref(c)
    s = as_region(c.I, c.st, c.args[1])
    if v is None or r is None or s is None:
        if r is not None:
            c.I.havoc_through(c.st, r)
        return c.ret(c.fresh())

    def okv(st):
        data = None
        if v.data is not None and av_pos(v) is not None and s.len.is_const() and s.len.c <= 64:
            data = av_put(v, av_pos(v), c.I.region_bytes(st, s, s.len.c))
        vec_store(c, r, VVec(v.kind, v.len + s.len, v.cap, v.key, v.elems, data), st)
        return ok(c.I, VTuple(()), c.dty)
    return fork2(c, f_simplify(("ge", v.cap - v.len - s.len)), okv,
                 lambda st: err(c.I, VOpaque(None, ("cap", fresh_id())), c.dty))


@M.reg("<arrayvec::ArrayVec<T, CAP> as core::iter::Extend<T>>::extend")
def m_av_extend(c):
    r, v = vec_ref(c)
    it = c.args[1]
    n = None
    if isinstance(it, VArray):
        n = Lin.const(it.n) if it.n is not None else None
    else:
        s = as_region(c.I, c.st, it)
        if s is not None:
            n = s.len
        elif isinstance(it, VIter) and it.kind == "slice":
            n = it.d["r"].len
    if v is None or r is None or n is None:
        c.oblige("panic", "ArrayVec::extend with unmodelled source", False, repr(it)[:100])
        if r is not None:
            c.I.havoc_through(c.st, r)
        return c.ret(VTuple(()))
    g = v.cap - v.len - n
    p = c.st.entails(g)
    c.oblige("panic", "ArrayVec::extend fits capacity", p, "" if p else "need %s>=0; facts: %s" % (show_lin(g), c.I.show_facts(c.st, g)))
    c.st.add_ge0(g)
    data = None
    if v.data is not None and av_pos(v) is not None and n.is_const() and n.c <= 64:
        if isinstance(it, VArray) and it.elems is not None:
            data = av_put(v, av_pos(v), list(it.elems))
        else:
            s_ = as_region(c.I, c.st, it)
            if s_ is None and isinstance(it, VIter) and it.kind == "slice":
                s_ = it.d["r"]
            if s_ is not None:
                data = av_put(v, av_pos(v), c.I.region_bytes(c.st, s_, n.c))
    vec_store(c, r, VVec(v.kind, v.len + n, v.cap, v.key, v.elems, data))
    return c.ret(VTuple(()))


@M.reg("arrayvec::ArrayVec::<T, CAP>::clear", "alloc::vec::Vec::<T, A>::clear")
def m_vec_clear(c):
    r, v = vec_ref(c)
    if v is not None and r is not None:
        vec_store(c, r, VVec(v.kind, Lin.const(0), v.cap, v.key, v.elems))
    return c.ret(VTuple(()))


@M.reg("alloc::vec::Vec::<T>::new")
def m_vec_new(c):
    key = ("vnew", fresh_id())
    return c.ret(VVec("vec", Lin.const(0), Lin.const(0), key, dty_elem(c)))


@M.reg("alloc::vec::Vec::<T>::with_capacity")
def m_vec_with_capacity(c):
    key = ("vcap", fresh_id())
    n = c.args[0]
    cp = reg_atom(("cap", key), 0, I64MAX)
    if isinstance(n, VInt):
        c.st.add_ge0(Lin.atom(cp) - n.lin)
    return c.ret(VVec("vec", Lin.const(0), Lin.atom(cp), key, dty_elem(c)))


@M.reg("alloc::vec::Vec::<T, A>::push")
def m_vec_push(c):
    r, v = vec_ref(c)
    if v is not None and r is not None:
        key = ("vpush", fresh_id())
        cp = reg_atom(("cap", key), 0, I64MAX)
        c.st.add_ge0(Lin.atom(cp) - v.len - 1)
        vec_store(c, r, VVec("vec", v.len + 1, Lin.atom(cp), key, v.elems))
    return c.ret(VTuple(()))


@M.reg("alloc::vec::Vec::<T, A>::pop")
def m_vec_pop(c):
    r, v = vec_ref(c)
    if v is None or r is None:
        return c.ret(c.fresh())

    def somev(s):
        vec_store(c, r, VVec("vec", v.len - 1, v.cap, v.key, v.elems), s)
        t = c.I.rt(c.dty)
        inner = c.I.materialize(s, t["args"][0]["t"], ("pop", fresh_id())) if isinstance(t, dict) and t.get("args") else VOpaque(None, ("pop", fresh_id()))
        return some(c.I, inner, c.dty)
    return fork2(c, f_simplify(("ge", v.len - 1)), somev, lambda s: none(c.I, c.dty))


@M.reg("alloc::vec::Vec::<T, A>::try_reserve", "alloc::vec::Vec::<T, A>::try_reserve_exact")
def m_vec_try_reserve(c):
    r, v = vec_ref(c)
    n = c.args[1]
    if v is None or r is None or not isinstance(n, VInt):
        return c.ret(c.fresh())

    def okv(s):
        key = ("vres", fresh_id())
        cp = reg_atom(("cap", key), 0, I64MAX)
        s.add_ge0(Lin.atom(cp) - v.len - n.lin)
        s.add_ge0(Lin.atom(cp) - v.cap)
        vec_store(c, r, VVec("vec", v.len, Lin.atom(cp), v.key, v.elems), s)
        return ok(c.I, VTuple(()), c.dty)
    return fork2(c, ("unk",), okv, lambda s: err(c.I, VOpaque(None, ("tre", fresh_id())), c.dty))


@M.reg("alloc::vec::Vec::<T, A>::reserve", "alloc::vec::Vec::<T, A>::reserve_exact")
def m_vec_reserve(c):
    r, v = vec_ref(c)
    n = c.args[1]
    if v is not None and r is not None and isinstance(n, VInt):
        key = ("vres", fresh_id())
        cp = reg_atom(("cap", key), 0, I64MAX)
        c.st.add_ge0(Lin.atom(cp) - v.len - n.lin)
        c.st.add_ge0(Lin.atom(cp) - v.cap)
        vec_store(c, r, VVec("vec", v.len, Lin.atom(cp), v.key, v.elems))
    return c.ret(VTuple(()))


@M.reg("alloc::vec::Vec::<T, A>::extend_from_slice")
def m_vec_extend_from_slice(c):
    r, v = vec_ref(c)
    s = as_region(c.I, c.st, c.args[1])
    if v is not None and r is not None:
        key = ("vext", fresh_id())
        cp = reg_atom(("cap", key), 0, I64MAX)
        if s is not None:
            nl = v.len + s.len
        else:
            nl = Lin.atom(reg_atom(("veclen", key), 0, I64MAX))
            c.st.add_ge0(nl - v.len)
        c.st.add_ge0(Lin.atom(cp) - nl)
        vec_store(c, r, VVec("vec", nl, Lin.atom(cp), key, v.elems))
    return c.ret(VTuple(()))


@M.reg("alloc::vec::Vec::<T, A>::retain", "alloc::vec::Vec::<T, A>::truncate", "alloc::vec::Vec::<T, A>::resize")
def m_vec_retain(c):
    r, v = vec_ref(c)
    if v is not None and r is not None:
        key = ("vret", fresh_id())
        ln = reg_atom(("veclen", key), 0, I64MAX)
        cp = reg_atom(("cap", key), 0, I64MAX)
        c.st.add_ge0(Lin.atom(cp) - Lin.atom(ln))
        if not c.path.endswith("resize"):
            c.st.add_ge0(v.len - Lin.atom(ln))
        vec_store(c, r, VVec("vec", Lin.atom(ln), Lin.atom(cp), key, v.elems))
    return c.ret(VTuple(()))


# ------------------------------------------------------------------------------------------------- io

@M.reg("std::io::Read::read_exact")
def m_read_exact(c):
    buf = as_region(c.I, c.st, c.args[1])
    out = []
    rd = c.st.notes.get("rd") if c.I.opts.get("io_sim") else None
    if rd is not None and buf is not None:
        # comparison runs: the reader is a cursor over a symbolic input (origin, position, total length)
        origin, pos, total = rd
        n = buf.len
        s_ok = c.st.fork()
        try:
            s_ok.add_ge0(total - pos - n)
            if s_ok.feasible(list((total - pos - n).atoms())):
                s_ok.notes["rd"] = (origin, pos + n, total)
                if n.is_const() and n.c <= 64 and buf.origin[0] == "place":
                    for i in range(n.c):
                        c.I.write_byte(s_ok, buf.origin, buf.off + i, c.I.read_byte(s_ok, origin, pos + i))
                    out.extend(c.ret_k(s_ok, ok(c.I, VTuple(()), c.dty)))
                else:
                    rg = c.I.int_range(s_ok, n, cap=64) if buf.origin[0] == "place" and buf.off.is_const() else None
                    if rg is not None and rg[1] - rg[0] <= 48:
                        for k in range(rg[0], rg[1] + 1):
                            s3 = s_ok.fork()
                            try:
                                s3.add_ge0(n - k)
                                s3.add_ge0(Lin.const(k) - n)
                                if not s3.feasible(list(n.atoms())):
                                    continue
                            except Infeasible:
                                continue
                            for i in range(k):
                                c.I.write_byte(s3, buf.origin, buf.off + i, c.I.read_byte(s3, origin, pos + i))
                            out.extend(c.ret_k(s3, ok(c.I, VTuple(()), c.dty)))
                    else:
                        c.I.havoc_region(s_ok, buf)
                        out.extend(c.ret_k(s_ok, ok(c.I, VTuple(()), c.dty)))
        except Infeasible:
            pass
        s_err = c.st
        try:
            s_err.add_ge0(pos + n - total - 1)
            if s_err.feasible(list((total - pos - n).atoms())):
                c.I.havoc_region(s_err, buf)
                s_err.notes["rd"] = (origin, total, total)
                out.extend(c.ret_k(s_err, err(c.I, VOpaque(None, ("ioerr", "eof")), c.dty)))
        except Infeasible:
            pass
        return out
    s_ok = c.st.fork()
    if buf is not None:
        c.I.havoc_region(s_ok, buf)
    c.I.havoc_through(s_ok, c.args[0])
    out.extend(c.ret_k(s_ok, ok(c.I, VTuple(()), c.dty)))
    s_err = c.st
    if buf is not None:
        c.I.havoc_region(s_err, buf)
    c.I.havoc_through(s_err, c.args[0])
    out.extend(c.ret_k(s_err, err(c.I, VOpaque(None, ("ioerr", fresh_id())), c.dty)))
    return out


@M.reg("std::io::Write::write_all", "writer::CoreWrite::write_all", "std::io::Seek::seek", "std::io::Write::flush",
       "std::io::Read::read")
def m_write_all(c):
    out = []
    sim = c.I.opts.get("io_sim") and c.path.endswith("write_all")
    for good in ((True,) if (sim and c.I.opts.get("io_ok_only")) else (True, False)):
        s2 = c.st.fork() if good else c.st
        c.I.havoc_through(s2, c.args[0])
        if good and sim and c.I.opts.get("len_sim"):
            r = as_region(c.I, s2, c.args[1])
            if r is not None:
                s2.notes["wlen"] = s2.notes.get("wlen", Lin.const(0)) + r.len
            else:
                s2.notes["wlen_bad"] = True
        elif good and sim:
            # comparison runs: successful writes are logged (bytes when the length is a small constant)
            r = as_region(c.I, s2, c.args[1])
            if r is not None and r.len.is_const() and r.len.c <= 64:
                ent = tuple(c.I.region_bytes(s2, r, r.len.c))
            else:
                ent = (("dyn", r, tuple(c.I.region_bytes(s2, r, 64)) if r is not None and r.origin[0] == "place" else None),)
            s2.notes["wlog"] = s2.notes.get("wlog", ()) + ent
        if good:
            t = c.I.rt(c.dty)
            inner = VTuple(())
            if isinstance(t, dict) and t.get("args") and "t" in t["args"][0]:
                inner = c.I.materialize(s2, t["args"][0]["t"], ("wok", fresh_id()))
            out.extend(c.ret_k(s2, ok(c.I, inner, c.dty)))
        else:
            t = c.I.rt(c.dty)
            e = VOpaque(None, ("ioerr", fresh_id()))
            if isinstance(t, dict) and len(t.get("args", [])) > 1 and "t" in t["args"][1]:
                e = c.I.materialize(s2, t["args"][1]["t"], ("werr", fresh_id()))
            out.extend(c.ret_k(s2, err(c.I, e, c.dty)))
    return out


# ------------------------------------------------------------------------------------------------- iterators

@M.reg("core::slice::<impl [T]>::iter", "core::slice::<impl [T]>::iter_mut",
       "core::slice::iter::<impl core::iter::IntoIterator for &[T]>::into_iter",
       "core::array::<impl core::iter::IntoIterator for &[T; N]>::into_iter",
       "<&arrayvec::ArrayVec<T, CAP> as core::iter::IntoIterator>::into_iter",
       "core::slice::iter::<impl core::iter::IntoIterator for &mut [T]>::into_iter")
def m_slice_iter(c):
    r = as_region(c.I, c.st, c.args[0])
    if r is not None:
        return c.ret(VIter("slice", r=r))
    g = as_gslice(c.I, c.st, c.args[0])
    if g is not None:
        return c.ret(VIter("count", n=g.len, ety=g.ety))
    src = c.args[0]
    if isinstance(src, VRef):
        tgt = c.I.load(c.st, ("place", src.fid, src.local, src.projs))
        if isinstance(tgt, VVec):
            return c.ret(VIter("count", n=tgt.len, ety=None))
    return c.ret(VIter("unknown"))


@M.reg("<I as core::iter::IntoIterator>::into_iter")
def m_into_iter_identity(c):
    return c.ret(c.args[0])


def iter_ref(c):
    r = c.args[0]
    if isinstance(r, VRef):
        v = c.I.load(c.st, ("place", r.fid, r.local, r.projs))
        return r, v
    return None, r


def opt_inner_ty(c):
    t = c.I.rt(c.dty)
    if isinstance(t, dict) and t.get("args") and "t" in t["args"][0]:
        return t["args"][0]["t"]
    return None


@M.reg("<core::slice::Iter<T> as core::iter::Iterator>::next", "<core::slice::IterMut<T> as core::iter::Iterator>::next")
def m_slice_iter_next(c):
    r, it = iter_ref(c)
    if isinstance(it, VIter) and it.kind == "slice" and r is not None:
        reg = it.d["r"]

        def somev(s):
            c.I.store(s, ("place", r.fid, r.local, r.projs),
                      VIter("slice", r=VRegion(reg.origin, reg.off + 1, reg.len - 1, reg.mut)))
            return some(c.I, VByteRef(reg.origin, reg.off, reg.mut), c.dty)
        return fork2(c, f_simplify(("ge", reg.len - 1)), somev, lambda s: none(c.I, c.dty))
    if isinstance(it, VIter) and it.kind == "count" and r is not None:
        n = it.d["n"]

        def somev2(s):
            c.I.store(s, ("place", r.fid, r.local, r.projs), VIter("count", n=n - 1, ety=None))
            ity = opt_inner_ty(c)
            return some(c.I, c.I.materialize(s, ity, ("it", fresh_id())) if ity is not None else VOpaque(None, ("it", fresh_id())), c.dty)
        return fork2(c, f_simplify(("ge", n - 1)), somev2, lambda s: none(c.I, c.dty))
    return fork2(c, ("unk",), lambda s: some(c.I, c.I.materialize(s, opt_inner_ty(c), ("it", fresh_id())) if opt_inner_ty(c) is not None else VOpaque(None, ("it", fresh_id())), c.dty),
                 lambda s: none(c.I, c.dty))


@M.reg("core::iter::Iterator::step_by")
def m_step_by(c):
    rng, step = c.args
    if isinstance(rng, VAdt) and rng.path.endswith("Range") and rng.fields and len(rng.fields) == 2 and isinstance(step, VInt):
        p = c.st.entails(step.lin - 1)
        c.oblige("panic", "step_by step != 0", p)
        return c.ret(VIter("stepby", start=rng.fields[0].lin, end=rng.fields[1].lin, step=step.lin))
    return c.ret(VIter("unknown"))


@M.reg("<core::iter::StepBy<I> as core::iter::Iterator>::next")
def m_step_by_next(c):
    r, it = iter_ref(c)
    if isinstance(it, VIter) and it.kind == "stepby" and r is not None:
        s0, e, stp = it.d["start"], it.d["end"], it.d["step"]

        def somev(s):
            c.I.store(s, ("place", r.fid, r.local, r.projs), VIter("stepby", start=s0 + stp, end=e, step=stp))
            return some(c.I, VInt(s0), c.dty)
        return fork2(c, f_simplify(("ge", e - s0 - 1)), somev, lambda s: none(c.I, c.dty))
    return fork2(c, ("unk",), lambda s: some(c.I, c.I.materialize(s, opt_inner_ty(c), ("it", fresh_id())), c.dty),
                 lambda s: none(c.I, c.dty))


@M.regp(r"^core::iter::range::<impl core::iter::Iterator for core::ops::Range<\w+>>::next$")
def m_range_next(c):
    r, rng = iter_ref(c)
    if isinstance(rng, VAdt) and rng.fields and len(rng.fields) == 2 and r is not None and \
            isinstance(rng.fields[0], VInt) and isinstance(rng.fields[1], VInt):
        s0, e = rng.fields[0].lin, rng.fields[1].lin

        def somev(s):
            c.I.store(s, ("place", r.fid, r.local, r.projs), VAdt(rng.path, rng.variant, (VInt(s0 + 1), VInt(e)), rng.key, rng.ty))
            return some(c.I, VInt(s0), c.dty)
        return fork2(c, f_simplify(("ge", e - s0 - 1)), somev, lambda s: none(c.I, c.dty))
    return NOT_HANDLED


@M.reg("core::iter::Iterator::enumerate")
def m_enumerate(c):
    return c.ret(VIter("enumerate", inner=c.args[0], i=Lin.const(0)))


@M.reg("core::iter::Iterator::take")
def m_take(c):
    n = c.args[1]
    return c.ret(VIter("take", inner=c.args[0], n=n.lin if isinstance(n, VInt) else None))


@M.reg("<core::iter::Take<I> as core::iter::Iterator>::next", "<core::iter::Enumerate<I> as core::iter::Iterator>::next")
def m_adapter_next(c):
    # generic: element unknown, plus index facts for enumerate/take
    r, it = iter_ref(c)
    ity = opt_inner_ty(c)

    def elem(s):
        return c.I.materialize(s, ity, ("it", fresh_id())) if ity is not None else VOpaque(None, ("it", fresh_id()))
    if isinstance(it, VIter) and r is not None:
        bound = iter_bound(it)
        idx = iter_index(it)
        if it.kind == "take" and it.d.get("n") is not None:
            n = it.d["n"]

            def somev(s):
                c.I.store(s, ("place", r.fid, r.local, r.projs), VIter("take", inner=advance_inner(it.d["inner"]), n=n - 1))
                v = elem(s)
                v = fix_enumerate_elem(c, s, v, it.d["inner"])
                return some(c.I, v, c.dty)
            f = f_simplify(("ge", n - 1))
            out = []
            # Some only if n >= 1 (and inner has items: unknown) ; None always possible
            s_some = c.st.fork()
            try:
                s_some.assume(f)
                if c.I.feasible_after(s_some, f):
                    out.extend(c.ret_k(s_some, somev(s_some)))
            except Infeasible:
                pass
            out.extend(c.ret_k(c.st, none(c.I, c.dty)))
            return out
        if it.kind == "enumerate":
            i = it.d["i"]

            def somev2(s):
                c.I.store(s, ("place", r.fid, r.local, r.projs), VIter("enumerate", inner=it.d["inner"], i=i + 1))
                v = elem(s)
                if isinstance(v, VTuple) and len(v.fields) == 2:
                    v = VTuple((VInt(i), v.fields[1]))
                return some(c.I, v, c.dty)
            return fork2(c, ("unk",), somev2, lambda s: none(c.I, c.dty))
    return fork2(c, ("unk",), lambda s: some(c.I, elem(s), c.dty), lambda s: none(c.I, c.dty))


def advance_inner(it):
    if isinstance(it, VIter) and it.kind == "enumerate":
        return VIter("enumerate", inner=it.d["inner"], i=it.d["i"] + 1)
    return it


def fix_enumerate_elem(c, s, v, inner):
    if isinstance(inner, VIter) and inner.kind == "enumerate" and isinstance(v, VTuple) and len(v.fields) == 2:
        return VTuple((VInt(inner.d["i"]), v.fields[1]))
    return v


def iter_bound(it):
    return None


def iter_index(it):
    return None


@M.regp(r"^core::iter::Iterator::(any|all|filter_map|collect|map|fold|count|sum|position|find|zip|rev|skip|chain|for_each|last|filter|cloned|copied|peekable)$|^<core::slice::Iter<T> as core::iter::Iterator>::(fold|any|all|position|for_each|map)$")
def m_iter_generic(c):
    # closures passed to these adapters are analysed once with unknown arguments so that their
    # obligations are generated; the result is unknown
    if c.path.endswith("::fold") and c.I.opts.get("bitfields"):
        r = m_iter_fold(c)  # (comparison runs) exact for small constant-length generic iterators
        if r is not NOT_HANDLED:
            return r
    for a in c.args[1:]:
        if isinstance(a, VClosure):
            body = c.I.F.bodies.get(a.path)
            if body is not None:
                c.I.pending_closures.append((a, body, c.st.fork()))
    for a in c.args:
        c.I.havoc_through(c.st, a)
    return c.ret(c.fresh())


# ------------------------------------------------------------------------------------------------- misc

@M.regp(r"^core::net::|^<core::net::")
def m_net(c):
    return c.ret(c.fresh())


@M.regp(r"^std::collections::|^<std::collections::|^hashbrown::")
def m_hashmap(c):
    for a in c.args:
        c.I.havoc_through(c.st, a)
    return c.ret(c.fresh())


@M.reg("core::mem::swap", "core::mem::replace", "core::mem::take")
def m_mem(c):
    a = c.args[0]
    if isinstance(a, VRef):
        cur = ("place", a.fid, a.local, a.projs)
        old = c.I.load(c.st, cur)
        if c.path.endswith("replace"):
            c.I.store(c.st, cur, c.args[1])
            return c.ret(old)
        if c.path.endswith("swap") and isinstance(c.args[1], VRef):
            b = c.args[1]
            cb = ("place", b.fid, b.local, b.projs)
            ob = c.I.load(c.st, cb)
            c.I.store(c.st, cur, ob)
            c.I.store(c.st, cb, old)
            return c.ret(VTuple(()))
    for x in c.args:
        c.I.havoc_through(c.st, x)
    return c.ret(c.fresh())


@M.reg("core::mem::size_of", "core::mem::align_of")
def m_size_of(c):
    return c.ret(c.fresh())


@M.regp(r"^<std::io::Error as |^std::io::Error::|^std::io::error::")
def m_ioerr(c):
    return c.ret(c.fresh())


@M.regp(r"^std::error::Error::|^core::error::Error::")
def m_error(c):
    return c.ret(c.fresh())


@M.reg("core::intrinsics::discriminant_value", "core::mem::discriminant")
def m_discriminant_value(c):
    v = deref(c.I, c.st, c.args[0])
    if isinstance(v, VAdt) and c.I.F.adts.get(v.path, {}).get("kind") == "enum":
        if v.variant is not None:
            return c.ret(VInt(Lin.const(c.I.discr_of_variant(v.path, v.variant))))
        return c.ret(VInt(Lin.atom(c.I.discr_atom(v))))
    return c.ret(c.fresh())


# ------------------------------------------------------------------------------------------------- checksum simulation
# (comparison runs only: opts["cksum_sim"])  The accumulator is kept as an exact linear expression: every added byte
# contributes byte * (1 | 256) by its position parity (native little-endian 16-bit words); a slice of unknown length
# contributes one atom.  The end-around-carry fold makes the sum a value modulo 0xffff, so the rule engine compares the
# accumulated expression with the expected one modulo 65535.

def _ck_sum_of(c, v):
    if isinstance(v, VAdt) and v.fields and isinstance(v.fields[0], VInt):
        return v.fields[0].lin
    if isinstance(v, VInt):
        return v.lin
    return None


def _ck_bytes(c, v):
    if isinstance(v, VArray) and v.elems is not None and all(isinstance(e, VInt) for e in v.elems):
        return [e.lin for e in v.elems]
    if isinstance(v, VRegion) and v.len.is_const() and v.len.c <= 64:
        bs = c.I.region_bytes(c.st, v, v.len.c)
        if all(isinstance(e, VInt) for e in bs):
            return [e.lin for e in bs]
    return None


def _ck_ret(c, lin, like):
    if isinstance(like, VAdt):
        return c.ret(VAdt(like.path, like.variant, (VInt(lin),), None, like.ty))
    return c.ret(VInt(lin))


@M.regp(r"^checksum::(Sum16BitWords|u64_16bit_word|u32_16bit_word)::add_(2|4|8|16)bytes$")
def m_ck_add_bytes(c):
    if not c.I.opts.get("cksum_sim"):
        return NOT_HANDLED
    acc = deref(c.I, c.st, c.args[0])
    s0 = _ck_sum_of(c, acc)
    bs = _ck_bytes(c, c.args[1])
    if s0 is None or bs is None:
        c.st.notes["cksum_bad"] = "untracked operand of %s" % c.path
        return c.ret(c.fresh())
    r = s0
    for i, b in enumerate(bs):
        r = r + b.scale(256 if i % 2 else 1)
    return _ck_ret(c, r, acc)


@M.regp(r"^checksum::(Sum16BitWords|u64_16bit_word|u32_16bit_word)::add_slice$")
def m_ck_add_slice(c):
    if not c.I.opts.get("cksum_sim"):
        return NOT_HANDLED
    acc = deref(c.I, c.st, c.args[0])
    s0 = _ck_sum_of(c, acc)
    r = as_region(c.I, c.st, c.args[1])
    if s0 is None or r is None:
        c.st.notes["cksum_bad"] = "untracked operand of %s" % c.path
        return c.ret(c.fresh())
    if r.len.is_const() and r.len.c <= 64:
        lin = s0
        for i, b in enumerate(c.I.region_bytes(c.st, r, r.len.c)):
            lin = lin + b.lin.scale(256 if i % 2 else 1)
        return _ck_ret(c, lin, acc)
    rg = c.I.int_range(c.st, r.len, cap=64) if (r.origin[0] == "place" and not c.I.opts.get("len_sim")) else None
    if rg is not None and rg[1] - rg[0] <= 48:
        outs = []
        for n in range(rg[0], rg[1] + 1):
            s2 = c.st.fork()
            try:
                s2.add_ge0(r.len - n)
                s2.add_ge0(Lin.const(n) - r.len)
                if not s2.feasible(list(r.len.atoms())):
                    continue
            except Infeasible:
                continue
            lin = s0
            for i, b in enumerate(c.I.region_bytes(s2, r, n)):
                lin = lin + b.lin.scale(256 if i % 2 else 1)
            v = VAdt(acc.path, acc.variant, (VInt(lin),), None, acc.ty) if isinstance(acc, VAdt) else VInt(lin)
            outs.extend(c.ret_k(s2, v))
        return outs
    a = reg_atom(("slicesum", r.origin, r.off.key(), r.len.key()), 0, None)
    return _ck_ret(c, s0 + Lin.atom(a), acc)


@M.regp(r"^checksum::(Sum16BitWords|u64_16bit_word|u32_16bit_word)::(ones_complement|to_ones_complement_with_no_zero|ones_complement_with_no_zero)$")
def m_ck_fold(c):
    if not c.I.opts.get("cksum_sim"):
        return NOT_HANDLED
    acc = deref(c.I, c.st, c.args[0])
    s0 = _ck_sum_of(c, acc)
    kind = "ocnz" if "no_zero" in c.path else "oc"
    if s0 is None:
        c.st.notes["cksum_bad"] = "untracked accumulator at %s" % c.path
        return c.ret(c.fresh())
    c.st.notes["cksum"] = c.st.notes.get("cksum", ()) + ((kind, s0, c.sp),)
    a = reg_atom(("ckfold", kind, s0.key()), 0, 65535)
    return c.ret(VInt(Lin.atom(a)))


@M.regp(r"(^core::iter::Iterator::fold$)|(as core::iter::Iterator>::fold$)|(core::iter::traits::iterator::Iterator::fold$)")
def m_iter_fold(c):
    """fold over a generic slice / array iterator of small constant length: the closure is called once per element
    (elements are unknown values of the element type)"""
    if len(c.args) != 3:
        return NOT_HANDLED
    it, init, f = c.args
    n = ety = None
    if isinstance(it, VIter) and it.kind == "count" and isinstance(it.d.get("n"), Lin) and it.d["n"].is_const():
        n, ety = it.d["n"].c, it.d.get("ety")
    elif isinstance(it, VIter) and it.kind == "slice":
        r = it.d["r"]
        if r.origin[0] == "place" and r.len.is_const():
            arr = c.I.load(c.st, ("place", r.origin[1], r.origin[2], r.origin[3]))
            if isinstance(arr, VArray) and arr.ety is not None and arr.ety != "u8":
                n, ety = r.len.c, arr.ety
    if n is None or ety is None or not (0 <= n <= 8):
        return NOT_HANDLED

    def step(st, acc, i):
        if i == n:
            return c.ret_k(st, acc)
        oid = ("ge", fresh_id())
        st.heap[oid] = c.I.materialize(st, ety, ("gev", fresh_id()))
        ref = VRef(0, oid, (), False)
        return call_closure_then(c, st, f, [acc, ref], lambda s2, v: step(s2, v, i + 1))
    return step(c.st, init, 0)
