"""Payload window rules (C03 clause): strict slicing cuts a payload to the innermost applicable length field and never
extends past it.

Each strict layer decoder is interpreted on a fully symbolic slice S; on every Ok path the end of the payload it hands
out (offset + length inside S) must equal the end announced by the layer's length field at its wire position
(RFC 791: total length, bytes 2-3; RFC 8200: payload length, bytes 4-5, 0 = up to the end of the enclosing data as
documented; RFC 768: length, bytes 4-5, 0 = up to the end), the length source must name that field, and the window
must lie inside S."""
import os
import time
from .lin import Lin, show_lin
from .values import *
from .sib import Sib
from .rules_rt import symbolic_input

N = "net::"
UF = (N + "ipv6_exts_slice::Ipv6ExtensionsSlice::from_slice",)


def be16(I, st, origin, i):
    a = I.read_byte(st, origin, Lin.const(i)).lin
    b = I.read_byte(st, origin, Lin.const(i + 1)).lin
    return a.scale(256) + b


def last_region(I, v, name=None):
    reg = None
    for (_, g) in I.walk_regions(v):
        reg = g
    return reg


def len_source_name(F, v):
    for x in _walk_adts(v):
        if x.path.endswith("::LenSource") and x.variant is not None:
            return F.adts[x.path]["variants"][x.variant]["name"]
    return None


def _walk_adts(v, d=0):
    if d > 6 or v is None:
        return
    if isinstance(v, VAdt):
        yield v
        for f in (v.fields or ()):
            for x in _walk_adts(f, d + 1):
                yield x
    elif isinstance(v, VTuple):
        for f in v.fields:
            for x in _walk_adts(f, d + 1):
                yield x


def field(F, v, name):
    adt = F.adts.get(v.path)
    for f, x in zip(adt["variants"][v.variant or 0]["fields"], v.fields or ()):
        if f["name"] == name:
            return x
    return None


def check_one(S, F, what, fpath, spec):
    b = F.bodies.get(fpath)
    r = {"rule": "window", "what": what, "sp": b["span"] if b else "", "problems": [], "paths": 0}
    if b is None:
        r["problems"].append("function not found")
        return r
    I = S.interp()
    I.opts["unroll"] = 9
    I.opts["uf_calls"] = frozenset(UF)
    st = State()
    arg, origin, total = symbolic_input(I, st, b["locals"][1][0], "in")
    fin, probs, I = S.run(b, st, [arg], I)
    r["problems"] += probs
    for (s1, rv) in fin:
        if not s1.feasible() or S.result_variant(I, s1, rv) != "Ok":
            continue
        r["paths"] += 1
        val = rv.fields[0]
        ann = be16(I, s1, origin, spec["len_at"]) + spec.get("plus", 0)
        zero = s1.entails(-be16(I, s1, origin, spec["len_at"]))
        nonzero = s1.entails(be16(I, s1, origin, spec["len_at"]) - 1)
        if spec.get("zero_means_rest"):
            if not (zero or nonzero):
                r["problems"].append("a path does not distinguish a zero length field")
                continue
            end = total if zero else ann
            src = "Slice" if zero else spec["source"]
        else:
            end, src = ann, spec["source"]
        if spec["window"] == "slice":      # the value's own slice is the window (UdpSlice)
            reg = last_region(I, val)
        elif spec["window"] == "payload":  # .payload.payload
            p = field(F, val, "payload")
            reg = field(F, p, "payload") if isinstance(p, VAdt) else None
            if reg is None or not isinstance(reg, VRegion) or reg.origin != origin:
                # (IPv6: the payload comes out of the shared extension parser; what that parser was handed ends there)
                reg = None
                for k, a in (s1.notes.get("uf_args") or ()):
                    if isinstance(a, VRegion) and a.origin == origin:
                        reg = a
        else:
            reg = None
        if reg is None or reg.origin != origin:
            r["problems"].append("the payload window is not a tracked sub-slice of the input")
            continue
        e = reg.off + reg.len
        if not S.int_eq(s1, e, end):
            r["problems"].append("the payload ends at offset %s, the %s says %s" % (
                show_lin(e)[:80], "length field" if end is not total else "slice", show_lin(end)[:80]))
        if not (s1.entails(total - e) and s1.entails(reg.off)):
            r["problems"].append("the payload window is not inside the input")
        if spec.get("check_source", True):
            got = len_source_name(F, val)
            if got is not None and got != src:
                r["problems"].append("len_source is %s on a path bounded by %s" % (got, src))
        if len(r["problems"]) > 4:
            break
    if r["paths"] == 0:
        r["problems"].append("no Ok path analysed")
    r["problems"] = list(dict.fromkeys(r["problems"]))[:4]
    return r


SPECS = [
    ("Ipv4Slice::from_slice (total length)", N + "ipv4_slice::Ipv4Slice::from_slice",
     {"len_at": 2, "source": "Ipv4HeaderTotalLen", "window": "payload"}),
    ("Ipv6Slice::from_slice (payload length)", N + "ipv6_slice::Ipv6Slice::from_slice",
     {"len_at": 4, "plus": 40, "source": "Ipv6HeaderPayloadLen", "window": "payload", "zero_means_rest": True,
      "check_source": False}),
    ("UdpSlice::from_slice (length)", "transport::udp_slice::UdpSlice::from_slice",
     {"len_at": 4, "source": "UdpHeaderLen", "window": "slice", "zero_means_rest": True, "check_source": False}),
]


def run(F, inv, summaries):
    S = Sib(F, inv, summaries, depth=6, budget=400000)
    return [check_one(S, F, w, p, sp) for (w, p, sp) in SPECS]
