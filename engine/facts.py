"""Load mirfacts JSON and provide convenient, normalised access."""
import json
import re
import os

_LT = re.compile(r"'[A-Za-z_][A-Za-z0-9_]*|'_")


def norm_path(p):
    """strip lifetime generic arguments from a def path string."""
    if p is None:
        return None
    if "'" not in p:
        return p
    s = _LT.sub("", p)
    # clean up leftovers like "<, T>" "<>" "::<>" "& mut" "<, >"
    prev = None
    while prev != s:
        prev = s
        s = s.replace("<, ", "<").replace(", >", ">").replace(", , ", ", ").replace("<,", "<")
        s = s.replace("::<>", "").replace("<>", "")
        s = s.replace("&  ", "& ").replace("& mut", "&mut").replace("& ", "&")
    return s


_PATH_KEYS = ("path", "fn", "item", "decl", "res", "trait", "parent")


def _norm_tree(x):
    if isinstance(x, dict):
        for k, v in x.items():
            if isinstance(v, str):
                if k in _PATH_KEYS and "'" in v:
                    x[k] = norm_path(v)
            elif isinstance(v, (dict, list)):
                _norm_tree(v)
    elif isinstance(x, list):
        for v in x:
            if isinstance(v, (dict, list)):
                _norm_tree(v)


class Facts:
    def __init__(self, path):
        with open(path) as f:
            d = json.load(f)
        self.crate = d["crate"]
        self.config = d.get("features", "")
        self.types = d["types"]
        self.adts = {}
        for a in d["adts"]:
            a["path"] = norm_path(a["path"])
            self.adts[a["path"]] = a
        self.consts = {}
        for c in d["consts"]:
            c["path"] = norm_path(c["path"])
            self.consts[c["path"]] = c
        self.impls = d["impls"]
        for i in self.impls:
            i["items"] = [norm_path(x) for x in i["items"]]
        self.bodies = {}
        self.body_list = []
        for b in d["bodies"]:
            b["raw_path"] = b["path"]
            b["path"] = norm_path(b["path"])
            if "parent" in b:
                b["parent"] = norm_path(b["parent"])
            if b["path"] in self.bodies:
                # disambiguate duplicates (e.g. several impls printing alike) with def path
                b["path"] = b["path"] + "@" + b["dp"]
            self.bodies[b["path"]] = b
            self.body_list.append(b)
            _norm_tree(b["blocks"])
        for t in self.types:
            if isinstance(t, dict) and "path" in t:
                t["path"] = norm_path(t["path"])
        _norm_tree(d["consts"])
        self._tystr = {}

    # ----- types
    def ty(self, i):
        return self.types[i]

    def ty_str(self, i):
        if i in self._tystr:
            return self._tystr[i]
        t = self.types[i]
        if isinstance(t, str):
            s = t
        else:
            k = t["k"]
            if k == "adt":
                args = []
                for a in t["args"]:
                    if "t" in a:
                        args.append(self.ty_str(a["t"]))
                    else:
                        args.append(str(a.get("c")))
                s = t["path"] + ("<" + ",".join(args) + ">" if args else "")
            elif k == "ref":
                s = ("&mut " if t["mut"] else "&") + self.ty_str(t["to"])
            elif k == "ptr":
                s = ("*mut " if t["mut"] else "*const ") + self.ty_str(t["to"])
            elif k == "slice":
                s = "[" + self.ty_str(t["of"]) + "]"
            elif k == "array":
                s = "[%s; %s]" % (self.ty_str(t["of"]), t["len"])
            elif k == "tuple":
                s = "(" + ",".join(self.ty_str(x) for x in t["of"]) + ")"
            elif k == "param":
                s = t["name"]
            elif k in ("fndef", "closure"):
                s = k + ":" + norm_path(t["path"])
            else:
                s = t.get("s", k)
        self._tystr[i] = s
        return s

    def is_int(self, i):
        t = self.types[i]
        return isinstance(t, str) and t in INT_TYPES

    def int_range(self, i):
        t = self.types[i]
        return INT_TYPES[t]


INT_TYPES = {
    "u8": (0, 255), "u16": (0, 65535), "u32": (0, (1 << 32) - 1), "u64": (0, (1 << 64) - 1),
    "u128": (0, (1 << 128) - 1), "usize": (0, (1 << 64) - 1),
    "i8": (-128, 127), "i16": (-32768, 32767), "i32": (-(1 << 31), (1 << 31) - 1),
    "i64": (-(1 << 63), (1 << 63) - 1), "i128": (-(1 << 127), (1 << 127) - 1),
    "isize": (-(1 << 63), (1 << 63) - 1),
    "char": (0, 0x10ffff),
}
INT_BITS = {"u8": 8, "u16": 16, "u32": 32, "u64": 64, "u128": 128, "usize": 64, "i8": 8, "i16": 16, "i32": 32,
            "i64": 64, "i128": 128, "isize": 64, "char": 32}


# ---------------------------------------------------------------------------------------------
# CFG helpers


def successors(term):
    t = term["t"]
    if t == "goto":
        return [term["target"]]
    if t == "switch":
        return [b for _, b in term["targets"]] + [term["otherwise"]]
    if t in ("return", "unreachable", "resume", "terminate"):
        return []
    if t == "drop":
        return [term["target"]]
    if t == "call":
        return [term["target"]] if term["target"] is not None else []
    if t == "assert":
        return [term["target"]]
    return []


def cfg_info(body):
    """returns dict with preds, rpo, idom, loops {header: set(blocks)}, back_edges"""
    if "_cfg" in body:
        return body["_cfg"]
    blocks = body["blocks"]
    n = len(blocks)
    succ = [successors(b["term"]) for b in blocks]
    # DFS for rpo and back edges
    color = [0] * n
    order = []
    back = []
    stack = [(0, iter(succ[0]))]
    color[0] = 1
    while stack:
        v, it = stack[-1]
        adv = False
        for w in it:
            if color[w] == 0:
                color[w] = 1
                stack.append((w, iter(succ[w])))
                adv = True
                break
            elif color[w] == 1:
                back.append((v, w))
        if not adv:
            color[v] = 2
            order.append(v)
            stack.pop()
    rpo = order[::-1]
    preds = [[] for _ in range(n)]
    for v in range(n):
        if color[v] == 0:
            continue
        for w in succ[v]:
            preds[w].append(v)
    # natural loops: for back edge (v->h): all nodes that reach v without passing h
    loops = {}
    for v, h in back:
        body_set = loops.setdefault(h, {h})
        work = [v]
        while work:
            x = work.pop()
            if x in body_set:
                continue
            body_set.add(x)
            work.extend(preds[x])
    # dominators (simple iterative)
    idx = {b: i for i, b in enumerate(rpo)}
    idom = {rpo[0]: rpo[0]} if rpo else {}
    changed = True
    while changed:
        changed = False
        for b in rpo[1:]:
            ps = [p for p in preds[b] if p in idom]
            if not ps:
                continue
            new = ps[0]
            for p in ps[1:]:
                a, c = p, new
                while a != c:
                    while idx[a] > idx[c]:
                        a = idom[a]
                    while idx[c] > idx[a]:
                        c = idom[c]
                new = a
            if idom.get(b) != new:
                idom[b] = new
                changed = True
    info = {"succ": succ, "preds": preds, "rpo": rpo, "loops": loops, "back": back, "idom": idom,
            "reachable": set(rpo)}
    body["_cfg"] = info
    return info


def dominates(info, a, b):
    idom = info["idom"]
    if b not in idom:
        return False
    while True:
        if a == b:
            return True
        nb = idom[b]
        if nb == b:
            return False
        b = nb
