"""Sibling agreement on the order "capacity check, then parse" in the link-extension loops (C04).

The struct decoder and the slicing cursor each keep at most three link extensions (VLAN / MACsec).  A further
extension header is *not parsed*: the walk stops and the header's ether type is handed out with the payload.  Whether
the (fallible) parse of such a header runs before or after the capacity test decides the verdict on inputs whose
fourth extension header is cut off or malformed, so the two siblings of a pair have to agree on it.

Rule, per pair and per extension class: the call sites of the class's parser are either all dominated by the
"not full" edge of a branch on a capacity query of an ArrayVec (is_full / len / remaining_capacity), or none is, in
both siblings alike.  Decided on the MIR CFG with dominators; nothing is executed.
"""
import re
from .facts import cfg_info, dominates

PAIRS = [
    ("strict", "packet_headers::PacketHeaders::from_ether_type", "sliced_packet_cursor::SlicedPacketCursor::slice_ether_type"),
    ("lax", "lax_packet_headers::LaxPacketHeaders::from_ether_type",
     "lax_sliced_packet_cursor::LaxSlicedPacketCursor::slice_ether_type"),
]
CLASSES = {
    "vlan": re.compile(r"^link::single_vlan_(header|slice)::SingleVlan(Header|Slice)::from_slice$"),
    "macsec": re.compile(r"^link::(lax_)?macsec_slice::(Lax)?MacsecSlice::from_slice$"),
}
CAP_QUERY = re.compile(r"^arrayvec::ArrayVec::<T, CAP>::(is_full|len|remaining_capacity)$")


def sites(F, fn):
    """{class: [(block, span, guarded)]} for the parser calls of fn."""
    body = F.bodies.get(fn)
    if body is None:
        return None
    info = cfg_info(body)
    blocks = body["blocks"]
    guards = []     # successor blocks entered only through a branch on a capacity query
    for i, blk in enumerate(blocks):
        t = blk["term"]
        if t["t"] != "call" or not isinstance(t.get("callee"), dict) or t.get("target") is None:
            continue
        if not CAP_QUERY.match(t["callee"].get("res") or t["callee"].get("decl") or ""):
            continue
        s = t["target"]
        hops = 0
        while blocks[s]["term"]["t"] == "goto" and hops < 4:
            s = blocks[s]["term"]["target"]
            hops += 1
        if blocks[s]["term"]["t"] != "switch":
            continue
        for succ in info["succ"][s]:
            if info["preds"][succ] == [s]:
                guards.append(succ)
    out = {c: [] for c in CLASSES}
    for i, blk in enumerate(blocks):
        t = blk["term"]
        if t["t"] != "call" or not isinstance(t.get("callee"), dict) or i not in info["reachable"]:
            continue
        name = t["callee"].get("res") or t["callee"].get("decl") or ""
        for c, rx in CLASSES.items():
            if rx.match(name):
                g = any(dominates(info, gb, i) for gb in guards)
                out[c].append((i, t.get("sp") or t.get("fn_sp") or "", g, name))
    return out


def run(F):
    recs = []
    for fam, a, b in PAIRS:
        sa, sb = sites(F, a), sites(F, b)
        for c in CLASSES:
            rec = {"rule": "capfirst", "what": "%s|%s" % (fam, c), "fns": [a, b], "problems": [], "sp": ""}
            recs.append(rec)
            if sa is None or sb is None:
                rec["missing"] = "walker %s not found" % (a if sa is None else b)
                continue
            if not sa[c] or not sb[c]:
                rec["missing"] = "no %s parser call found in %s" % (c, a if not sa[c] else b)
                continue
            ga = {g for _, _, g, _ in sa[c]}
            gb = {g for _, _, g, _ in sb[c]}
            rec["sites"] = [(fn, sp, g) for fn, ss in ((a, sa[c]), (b, sb[c])) for _, sp, g, _ in ss]
            if ga == gb and len(ga) == 1:
                continue
            # name the minority: the unguarded sites when any sibling site is guarded
            for fn, ss in ((a, sa[c]), (b, sb[c])):
                for _, sp, g, name in ss:
                    if not g:
                        rec["problems"].append(
                            "%s is called before the link-extension capacity check in %s, its sibling checks the "
                            "capacity first (a cut-off or malformed extension header beyond the capacity is an error "
                            "for one decoder and payload for the other)" % (name.split("::", 2)[-1], fn))
                        rec["sp"] = rec["sp"] or sp
    return recs
