"""Debug runner: analyse bodies standalone and print obligation statistics."""
import sys
import time
import traceback
import collections
from .facts import Facts
from .absint import Interp, Sink, AnalysisAbort
from .models import M


def analyze_all(F, inv=None, only=None, max_depth=2, budget=20000, verbose=False):
    results = {}
    errors = []
    for b in F.body_list:
        if only and not only(b):
            continue
        I = Interp(F, M, inv, max_depth=max_depth, budget=budget)
        t = time.time()
        try:
            I.analyze_root(b)
        except Exception as e:
            errors.append((b["path"], traceback.format_exc()))
        results[b["path"]] = I
        if verbose:
            dt = time.time() - t
            if dt > 1.0:
                print("  slow %.1fs %s steps=%d" % (dt, b["path"], I.steps))
    return results, errors


def main():
    path = sys.argv[1]
    pat = sys.argv[2] if len(sys.argv) > 2 else None
    F = Facts(path)
    t0 = time.time()
    res, errors = analyze_all(F, only=(lambda b: pat in b["path"]) if pat else None, verbose=True)
    print("analysed %d bodies in %.1fs, %d errors" % (len(res), time.time() - t0, len(errors)))
    for p, tb in errors[:10]:
        print("ERROR", p)
        print(tb)
    ec = collections.Counter(tb.strip().splitlines()[-1] for p, tb in errors)
    for k, v in ec.most_common(20):
        print(v, k)
    tot = collections.Counter()
    unp = collections.Counter()
    unm = collections.Counter()
    aborts = []
    for p, I in res.items():
        for o in I.sink.obligs:
            tot[o.kind] += 1
            if not o.proved:
                unp[o.kind] += 1
        for e in I.sink.events:
            if e[0] == "unmodelled":
                unm[e[1]] += 1
            if e[0] == "abort":
                aborts.append(e)
    print("obligations", dict(tot))
    print("unproved", dict(unp))
    print("aborts", len(aborts))
    for a in aborts[:20]:
        print("  ", a)
    print("unmodelled:")
    for k, v in unm.most_common(60):
        print("  ", v, k)
    if pat:
        for p, I in res.items():
            for o in I.sink.obligs:
                if not o.proved:
                    print("UNPROVED", o.kind, o.fn, o.site, o.sp, o.desc, "|", o.detail[:300], "| ctx", o.ctx)


if __name__ == "__main__":
    main()
