"""C04 - decoding into header structs agrees with slicing (clause: transport layer)."""
from ..check import Result, e1_health
from .c07 import inv_from_e1
from .c05 import collect

LEVEL = "other"
EXPLANATION = (
    "Decides the transport-layer clause: `packet_headers::read_transport` (what every struct-mode whole-packet decoder "
    "calls for an IP payload) is interpreted on a symbolic unfragmented IP payload for each of the four transport "
    "protocol numbers (ICMP, ICMPv6, UDP, TCP); the slice decoder that the slicing cursor uses for that protocol - taken "
    "from the MIR of SlicedPacketCursor::slice_<proto> - is interpreted in each final state; both accept or both "
    "reject, the header struct equals the slice's header()/to_header() field by field and the remaining payload is "
    "the same byte range.  (capfirst) in the link-extension loops of the struct decoder and of the slicing cursor "
    "(strict and lax pair, VLAN and MACsec parser) the parser call sites are dominated by the not-full edge of a branch "
    "on a capacity query of the link-extension ArrayVec in both siblings or in neither - MIR CFG dominators - so both "
    "treat an extension header beyond the capacity as payload without parsing it.  NOT decided: link / network layers "
    "and the remaining layer sequencing of the two whole-packet decoders, the documented IPv6-extension exception.")
ASSUMPTIONS = ["error descriptors of the rejecting paths are C07's subject and are not compared here"]


def check(ctx):
    from .. import rules_agree, rules_capfirst
    res = Result()
    for cfg in ctx.configs:
        F = ctx.facts(cfg)
        e1 = ctx.e1(cfg)
        e1_health(ctx, res, e1)
        tag = "" if cfg == "std" else "@" + cfg
        recs = rules_agree.run_transport(F, inv_from_e1(e1), e1.get("summaries"))
        collect(res, recs, tag)
        caps = rules_capfirst.run(F)
        for r in caps:
            if r.get("missing"):
                res.errors.append("capfirst %s: %s" % (r["what"], r["missing"]))
        collect(res, [r for r in caps if not r.get("missing")], tag)
    return res
