"""C04 - decoding into header structs agrees with slicing (clause: transport layer)."""
from ..check import Result, e1_health
from .c07 import inv_from_e1
from .c05 import collect

LEVEL = "other"
EXPLANATION = (
    "Decides the transport-layer clause: `packet_headers::read_transport` (what every struct-mode whole-packet decoder "
    "calls for an IP payload) is interpreted on a symbolic unfragmented IP payload for each of the four transport "
    "protocol numbers (ICMP, ICMPv6, UDP, TCP); the slice decoder that the slicing cursor uses for that protocol - taken "
    "from the MIR of SlicedPacketCursor::slice_<proto> - is interpreted in each final state; both accept or both "
    "reject, the header struct equals the slice's header()/to_header() field by field and the remaining payload is "
    "the same byte range.  NOT decided: link / link-extension / network layers and the layer sequencing of the two "
    "whole-packet decoders (loops over VLAN / MACsec / extension headers), the documented IPv6-extension exception.")
ASSUMPTIONS = ["error descriptors of the rejecting paths are C07's subject and are not compared here"]


def check(ctx):
    from .. import rules_agree
    res = Result()
    for cfg in ctx.configs:
        F = ctx.facts(cfg)
        e1 = ctx.e1(cfg)
        e1_health(ctx, res, e1)
        tag = "" if cfg == "std" else "@" + cfg
        recs = rules_agree.run_transport(F, inv_from_e1(e1), e1.get("summaries"))
        collect(res, recs, tag)
    return res
