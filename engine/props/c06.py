"""C06 - equivalent entry points give equivalent answers (clauses: io::Read entry vs slice entry; IPv4 dispatch)."""
from ..check import Result, e1_health
from .c07 import inv_from_e1
from .c08 import collect

LEVEL = "other"
EXPLANATION = (
    "Decides the reader-vs-slice clause: for every header type with both `read(reader)` and `from_slice(slice)` the two "
    "functions are interpreted on the same symbolic bytes (the reader is modelled as a cursor over the symbolic slice: "
    "read_exact copies the next bytes or fails with UnexpectedEof when fewer remain); on every joint path the results "
    "must agree: equal header values and exactly the slice decoder's consumed length pulled from the reader, or "
    "rejections of the same class (not enough data / the same content error value).  (dispatch) the four "
    "version-dispatching IP decoders are interpreted on a symbolic slice whose version nibble is 4 and the IPv4-specific "
    "decoder is interpreted in each final state: same value / same error (all five LenError fields, content errors "
    "matched through the err::ip <-> err::ipv4 naming).  NOT decided: the IPv6 half of the dispatch clause (joint walks "
    "over extension chains exceed the time budget), ethernet-vs-ether-type and ip-ether-type clauses.")
ASSUMPTIONS = [
    "foreign Read implementations behave like a cursor: read_exact either fills the buffer with the next bytes or "
    "fails without a value",
    "on truncated data the order of the length check and a content check is not fixed by the property (a slice Len "
    "error against a reader content error is accepted, counted as order_only)",
    "slices longer than an exact-length message (ICMP timestamp) are outside the quantification (longer_slice_only)",
]


def check(ctx):
    from .. import rules_rt
    res = Result()
    spec = rules_rt.load_spec()
    for cfg in ctx.configs:
        if cfg != "std":
            continue  # io::Read entry points only exist with feature std
        F = ctx.facts(cfg)
        e1 = ctx.e1(cfg)
        e1_health(ctx, res, e1)
        out = rules_rt.run_read(F, inv_from_e1(e1), e1.get("summaries"))
        res.analysed["header_types_with_read"] = len(out)
        collect(ctx, res, out, "", spec)
        # dispatch clause, IPv4 half: the version-dispatching decoders against the IPv4-specific ones
        from .. import rules_agree
        from .c05 import collect as collect_agree
        recs = rules_agree.run(F, inv_from_e1(e1), e1.get("summaries"), rules=("dispatch",))
        collect_agree(res, recs, "")
    return res
