"""C03 - strict packet slicing matches the wire formats (clause: payload windows of the length-bearing layers)."""
from ..check import Result, e1_health
from .c07 import inv_from_e1
from .c05 import collect

LEVEL = "other"
EXPLANATION = (
    "Decides the payload-window clause for three length-bearing layers: Ipv4Slice::from_slice, Ipv6Slice::from_slice and "
    "UdpSlice::from_slice are interpreted on a fully symbolic slice; on every Ok path the payload handed out ends exactly "
    "where the layer's length field at its wire position says (RFC 791 total length, bytes 2-3; RFC 8200 payload length, "
    "bytes 4-5 (+40); RFC 768 length, bytes 4-5; a zero IPv6 / UDP length means 'up to the end of the enclosing data', as "
    "documented), lies inside the input, and the IPv4 length source names the field.  For IPv6 the window is the slice "
    "handed to the (uninterpreted) extension parser.  The MACsec window is covered by C05's strict-vs-lax pair, the "
    "transport layer by C04, error descriptors by C07, per-header field values by C08.  NOT decided: the layer sequence "
    "of the whole-packet cursor (dispatch on ether type / IP number, at most three link extensions, fragmentation "
    "gating), the exact accept/reject set per layer against the RFCs.")
ASSUMPTIONS = ["wire positions of the three length fields as transcribed in engine/rules_window.py (SPECS)"]


def check(ctx):
    from .. import rules_window
    res = Result()
    for cfg in ctx.configs:
        F = ctx.facts(cfg)
        e1 = ctx.e1(cfg)
        e1_health(ctx, res, e1)
        tag = "" if cfg == "std" else "@" + cfg
        recs = rules_window.run(F, inv_from_e1(e1), e1.get("summaries"))
        collect(res, recs, tag)
    return res
