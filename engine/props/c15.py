"""C15 - bit-field types hold only in-range values and never bleed into neighbours."""
import json
import os
from ..check import Result, e1_site_findings, e1_health, VERIF
from ..lin import lin_from_key, Lin, entails_ge0, show_lin

LEVEL = "proof"
EXPLANATION = ("(ctor-pre) the debug assertion inside every (unchecked) constructor of a bounded type is discharged in every "
               "calling context of the crate; (range) the inferred type invariant of each bounded newtype - the disjunction over every construction "
               "context in the crate, including every call of the unsafe *_unchecked constructors - is exactly "
               "0 <= value <= 2^bits-1; (const) the MAX_* constants equal 2^bits-1; (bitor) every integer `|` of the "
               "crate has operands whose may-be-set bits are disjoint (no field can alter a neighbouring bit).")
ASSUMPTIONS = ["external callers of the public unsafe *_unchecked constructors honour the documented range"]


def check(ctx):
    res = Result()
    with open(os.path.join(VERIF, "spec", "bounded_types.json")) as f:
        spec = json.load(f)
    for cfg in ctx.configs:
        F = ctx.facts(cfg)
        e1 = ctx.e1(cfg)
        e1_health(ctx, res, e1)
        tag = "" if cfg == "std" else "@" + cfg
        e1_site_findings(ctx, res, "e1-bitor" + tag, e1, lambda fn, kind, desc, s: kind == "bitor")
        # the debug assertions inside the (unchecked) constructors are the range preconditions: every calling context
        # in the crate must discharge them (the invariant above is inferred *after* the assertion, so a violating
        # caller would otherwise hide behind it)
        tys = tuple(t + "::" for t in spec["types"])
        e1_site_findings(ctx, res, "e1-ctor-pre" + tag, e1,
                         lambda fn, kind, desc, s: kind == "panic" and fn.startswith(tys))
        for ty, sp in spec["types"].items():
            mx = (1 << sp["bits"]) - 1
            rule = "range" + tag
            iv = e1["inv"].get(ty)
            if ty not in F.adts:
                res.errors.append("bounded type %s not found" % ty)
                continue
            a = ("v", ("SELF", ty, 0))
            if iv is None or iv["top"] or not iv["disjuncts"]:
                res.count(rule, 1, 0, 0)
                res.add(rule, "range|%s|top" % ty, "no upper bound could be established for %s: some construction site "
                        "(a decoder accessor or constructor) does not keep the value <= %d" % (ty, mx),
                        F.adts[ty].get("span", ""))
                continue
            # every disjunct must entail v <= mx ; and the union must reach mx (not stricter)
            ok_upper = True
            sup = None
            for d in iv["disjuncts"]:
                facts = [lin_from_key(k) for k in d]
                from ..lin import sup_of, reg_atom
                reg_atom(a, 0, None)
                s_ = sup_of(facts, Lin.atom(a))
                if s_ is None or s_ > mx:
                    ok_upper = False
                sup = s_ if sup is None or (s_ is not None and s_ > sup) else sup
            if not ok_upper:
                res.count(rule, 1, 0, 0)
                res.add(rule, "range|%s|upper" % ty, "a construction site of %s admits values up to %s (> %d = 2^%d-1)" %
                        (ty, sup, mx, sp["bits"]), F.adts[ty].get("span", ""))
            elif sup != mx:
                res.count(rule, 1, 0, 0)
                res.add(rule, "range|%s|strict" % ty, "constructors of %s only admit values up to %s although the field "
                        "holds %d bits (max %d)" % (ty, sup, sp["bits"], mx), F.adts[ty].get("span", ""))
            else:
                res.count(rule, 1, 1, 1)
                res.sample({"type": ty, "invariant": "0 <= value <= %d" % mx, "disjuncts": len(iv["disjuncts"])})
            for cn in sp.get("max_const", []):
                c = F.consts.get(cn)
                rule2 = "const" + tag
                if c is None:
                    res.notes.append("constant %s not found" % cn)
                    continue
                val = c["val"].get("int")
                if val != mx:
                    res.count(rule2, 1, 0, 0)
                    res.add(rule2, "const|%s" % cn, "%s is %s, expected %d (2^%d-1)" % (cn, val, mx, sp["bits"]), c.get("span", ""))
                else:
                    res.count(rule2, 1, 1, 0)
    return res
