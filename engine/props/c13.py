"""C13 - TCP options encode and decode faithfully; iteration is bounded (clauses: iterator step, size fold)."""
from ..check import Result, e1_site_findings, e1_health
from .c07 import inv_from_e1
from .c05 import collect

LEVEL = "other"
EXPLANATION = (
    "(iter) TcpOptionsIterator::next is interpreted on a fully symbolic option area (26 paths): a yielded element "
    "consumes between 1 and len bytes and leaves exactly the suffix (elements tile a prefix, every step makes "
    "progress, so iteration is bounded by the area's length); after an error or the end-of-list kind the remaining area "
    "is empty (the iterator stays exhausted); every error states the real kind, size byte and remaining length of the "
    "input.  (fold) the closure TcpOptions::try_from_elements folds over the elements adds, on every path, a positive "
    "amount that does not depend on the accumulator - a necessary condition for the reported required size being the "
    "size of the whole list.  (e1) unchecked reads and panics of the option iterator are obligations of C01 / C02.  NOT "
    "decided: that the write loop emits, per element, the number of bytes the fold counted (two loops over one slice), "
    "the decoded field values of each element, the padding clause.")
ASSUMPTIONS = []


def check(ctx):
    from .. import rules_tcpopt
    res = Result()
    for cfg in ctx.configs:
        F = ctx.facts(cfg)
        e1 = ctx.e1(cfg)
        e1_health(ctx, res, e1)
        tag = "" if cfg == "std" else "@" + cfg
        recs = rules_tcpopt.run(F, inv_from_e1(e1), e1.get("summaries"))
        for rec in recs:
            # one instance per analysed path of the rule
            rec["what"] = rec["what"]
        collect(res, recs, tag)
        n_paths = sum(r.get("paths", 0) for r in recs)
        res.analysed["paths" + tag] = n_paths
        if n_paths < 30:
            res.errors.append("TCP option rules analysed %d paths, expected at least 30" % n_paths)
    return res
