"""C09 - checksums equal the RFC 1071 Internet checksum (clauses: which words are summed, which fold, validation form)."""
from ..check import Result, e1_health
from .c07 import inv_from_e1

LEVEL = "other"
EXPLANATION = (
    "Decides the structural clauses: (cksum) for every checksum routine on header structs the accumulator of "
    "checksum::Sum16BitWords at the fold, interpreted as an exact linear expression over byte values, equals modulo "
    "0xffff the 16-bit words of to_bytes() of the same symbolic header (checksum field excluded) plus the protocol's "
    "pseudo header (RFC 768/793/8200/4443: addresses, zero+protocol, upper-layer length) plus the payload; (cksum-slice) "
    "the slice based routines sum pseudo header + all message bytes except the checksum field; the fold is the "
    "0 -> 0xffff variant exactly for UDP; (cksum-validate) validation sums the complete message and tests that the "
    "complement is 0. The arithmetic of the helpers themselves (end-around carry, split independence, 32/64 bit "
    "accumulators) is *not* decided here.")
ASSUMPTIONS = [
    "checksum::Sum16BitWords::add_* add the native-endian 16-bit words of their argument with end-around carry and "
    "ones_complement folds to 16 bits (the helpers' own arithmetic is the undecided clause)",
    "pseudo header layouts as transcribed in engine/rules_cksum.py (SPEC / SLICE_SPEC)",
]


def check(ctx):
    from .. import rules_cksum
    res = Result()
    for cfg in ctx.configs:
        F = ctx.facts(cfg)
        e1 = ctx.e1(cfg)
        e1_health(ctx, res, e1)
        tag = "" if cfg == "std" else "@" + cfg
        out = rules_cksum.run(F, inv_from_e1(e1), e1.get("summaries"))
        res.analysed["checksum_routines" + tag] = len(out)
        for r in out:
            if r["err"]:
                res.errors.append("checksum rules crashed on %s: %s" % (r["fn"], r["err"].strip().splitlines()[-1]))
            for rec in r["records"]:
                rule = rec["rule"] + tag
                key = "%s|%s" % (rec["rule"], rec["fn"])
                if not rec["problems"]:
                    res.count(rule, 1, 1, 1)
                    res.sample({"rule": rec["rule"], "fn": rec["fn"], "paths": rec.get("paths"), "loc": rec.get("sp")})
                else:
                    res.count(rule, 1, 0, 0)
                    for pr in rec["problems"][:2]:
                        res.add(rule, key, "%s: %s" % (rec["fn"], pr), rec.get("sp") or "")
    return res
