"""C16 - I/O faults and short buffers surface as errors without partial garbage."""
from ..check import Result, e1_site_findings, e1_health
from .. import scope
from .c07 import inv_from_e1

LEVEL = "proof"
EXPLANATION = (
    "(propagate) every call whose result can carry an I/O or space fault is followed on all paths: if the result may be "
    "Err the enclosing function returns Err; (prefix) no writer is called while an earlier I/O result may still be Err; "
    "(space) every Err return carrying a space error entails required_len > len(slice), every Ok return entails "
    "len >= required_len and hands back the slice exactly required_len bytes further; (budget) LimitedReader pulls from "
    "the wrapped reader only through read_exact(buf) with len(buf) <= max_len - read_len entailed and accounts exactly "
    "len(buf); (e1-panic / e1-bounds) every panic-capable terminator and every unsafe write / slice construction in the "
    "call-graph closure of the encoding entry points is discharged by the abstract interpreter.")
ASSUMPTIONS = [
    "foreign Write/Read implementations report their own faults through the returned Result",
    "what a *successful* sequence of writes emits (C08/C10) is not part of this check; the prefix clause is decided "
    "structurally: writes happen in program order and stop at the first possibly-failed one",
]

BOUNDS_KINDS = ("write", "mkslice", "setlen", "push")


def check(ctx):
    from .. import rules_err
    res = Result()
    for cfg in ctx.configs:
        F = ctx.facts(cfg)
        e1 = ctx.e1(cfg)
        e1_health(ctx, res, e1)
        tag = "" if cfg == "std" else "@" + cfg
        roots = scope.encode_roots(F)
        reach = scope.reachable(F, roots)
        res.analysed["encode_roots" + tag] = len(roots)
        res.analysed["encode_reachable_fns" + tag] = len(reach)
        e1_site_findings(ctx, res, "e1-panic" + tag, e1, lambda fn, kind, desc, s: kind == "panic" and fn in reach)
        e1_site_findings(ctx, res, "e1-bounds" + tag, e1, lambda fn, kind, desc, s: kind in BOUNDS_KINDS and fn in reach)
        for ev in e1["events"]:
            if ev[1] == "abort" and ev[2] in reach:
                res.add("e1-abort" + tag, "abort|" + ev[2], "analysis budget exceeded in encoding function %s" % ev[2],
                        F.bodies[ev[2]]["span"], ev[3])
        out = rules_err.run(F, inv_from_e1(e1))
        res.analysed["fallible_io_functions" + tag] = len(out)
        for r in out:
            if r["err"]:
                res.errors.append("rules_err crashed on %s: %s" % (r["fn"], r["err"].strip().splitlines()[-1]))
            if r["aborted"]:
                res.add("err-abort" + tag, "abort|" + r["fn"], "analysis budget exceeded in %s" % r["fn"], "")
            # ordinal of each call site per (fn, callee): line-free keys
            ords = {}
            for rec in sorted(r["records"], key=lambda x: (x["rule"], x["what"], str(x["site"]))):
                k0 = (rec["rule"], rec["what"])
                ords[k0] = ords.get(k0, -1) + 1
                rule = rec["rule"] + tag
                key = "%s|%s|%s|#%d" % (rec["rule"], rec["fn"], rec["what"], ords[k0])
                if rec["problems"]:
                    res.count(rule, 1, 0, 0)
                    for pr in rec["problems"][:2]:
                        res.add(rule, key, pr, rec.get("sp") or "")
                else:
                    res.count(rule, 1, 1, 1)
                    if rec["rule"] != "propagate" or ords[k0] == 0:
                        res.sample({k: rec.get(k) for k in ("rule", "fn", "what", "sp", "paths", "required_len") if rec.get(k)})
    return res
