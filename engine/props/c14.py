"""C14 - out-of-range lengths and values are rejected, never truncated."""
from ..check import Result, e1_site_findings, e1_health
from .c07 import inv_from_e1

LEVEL = "proof"
EXPLANATION = ("(cast) every narrowing integer cast of the crate is an obligation: the operand is proved to fit the target "
               "type on the path reaching the cast (or, when decided later, before the next write / non-error return); "
               "(shl) no left shift of an unsigned value pushes set bits out of its type unless the result is masked at once; (vtbe) at every ValueTooBigError construction the path condition "
               "entails actual > max_allowed and the value type matches the IP version of the path; (accept) on the "
               "sibling Ok paths of each comparison guard the accepted value is <= max_allowed; (unchanged) on every Err "
               "return of a `&mut self` setter *self equals its entry value.")
ASSUMPTIONS = ["intentional truncations must be visible to the domain (masks / shifts); otherwise they are listed as axioms",
               "tightness of max_allowed against the wire field width is implied by the cast obligation of the same "
               "function together with the accept rule (a too small maximum is not detected when no cast follows)"]


def check(ctx):
    from .. import rules_val
    res = Result()
    for cfg in ctx.configs:
        F = ctx.facts(cfg)
        e1 = ctx.e1(cfg)
        e1_health(ctx, res, e1)
        tag = "" if cfg == "std" else "@" + cfg
        e1_site_findings(ctx, res, "e1-cast" + tag, e1, lambda fn, kind, desc, s: kind == "cast")
        e1_site_findings(ctx, res, "e1-shl" + tag, e1, lambda fn, kind, desc, s: kind == "shl")
        out = rules_val.run(F, inv_from_e1(e1))
        rejecting = {r["fn"] for r in out}
        # arithmetic of a range-checking function must not wrap: an overflow after the guard means the guard accepts a
        # value the field cannot represent (release builds truncate, debug builds panic)
        e1_site_findings(ctx, res, "e1-overflow" + tag, e1,
                         lambda fn, kind, desc, s: kind == "panic" and "Overflow" in desc and fn in rejecting)
        res.analysed["rejecting_functions" + tag] = len(out)
        seen = set()
        for r in out:
            if r["err"]:
                res.errors.append("rules_val crashed on %s: %s" % (r["fn"], r["err"].strip().splitlines()[-1]))
            if r["aborted"] and not r["fn"].startswith("packet_builder::"):
                res.add("val-abort" + tag, "abort|" + r["fn"], "analysis budget exceeded in %s" % r["fn"], "")
            for rec in r["records"]:
                rule = rec["rule"] + tag
                ident = (rec["rule"], rec["fn"], rec.get("in"), rec.get("value_type"), tuple(p.split(";")[0][:120] for p in rec["problems"]))
                if ident in seen:
                    continue
                seen.add(ident)
                if rec["problems"]:
                    res.count(rule, 1, 0, 0)
                    for pr in rec["problems"]:
                        key = "%s|%s|%s|%s" % (rec["rule"], rec["fn"], rec.get("value_type"), "_".join(pr.split(" ")[:4]))
                        res.add(rule, key, pr, rec.get("sp") or "")
                else:
                    res.count(rule, 1, 1, 1)
                    res.sample({k: rec.get(k) for k in ("rule", "fn", "sp", "value_type", "actual", "max_allowed") if rec.get(k)})
    return res
