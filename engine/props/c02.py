"""C02 - decoders are total: no panic, no hang."""
from ..check import Result, e1_site_findings, e1_health
from .. import scope

LEVEL = "proof"
EXPLANATION = ("Every panic-capable MIR terminator or call (overflow / bounds / division asserts built with overflow "
               "checks and debug assertions on, unwrap/expect, panic!/unreachable!/assert!, slice indexing, "
               "copy_from_slice, ArrayVec capacity panics) inside the call-graph closure of the decoding roots is an "
               "obligation proved infeasible by the abstract interpreter; every loop reached needs a strictly "
               "decreasing measure on each back edge (R-term).")
ASSUMPTIONS = [
    "foreign Read implementations eventually return Err/EOF (reader driven loops terminate relative to that)",
    "formatting machinery of core (Formatter::*, Arguments) does not panic",
    "unmodelled safe foreign calls listed in evidence.analysed.unmodelled are assumed non-panicking",
]


def check(ctx):
    res = Result()
    for cfg in ctx.configs:
        F = ctx.facts(cfg)
        e1 = ctx.e1(cfg)
        e1_health(ctx, res, e1)
        tag = "" if cfg == "std" else "@" + cfg
        roots = scope.decode_roots(F)
        reach = scope.reachable(F, roots)
        res.analysed["decode_roots" + tag] = len(roots)
        res.analysed["decode_reachable_fns" + tag] = len(reach)
        e1_site_findings(ctx, res, "e1-panic" + tag, e1,
                         lambda fn, kind, desc, s: kind == "panic" and fn in reach)
        # aborted roots
        for ev in e1["events"]:
            if ev[1] == "abort" and ev[2] in reach:
                res.add("e1-abort" + tag, "abort|" + ev[2], "analysis budget exceeded in decoding function %s" % ev[2],
                        F.bodies[ev[2]]["span"], ev[3])
        # R-term
        loops = {}
        for ev in e1["events"]:
            if ev[1] == "loop_term":
                root, _, fn, header, sp, term, nback, lctx = ev
                if fn not in reach:
                    continue
                # same required-instance rule as obligations: ignore contexts inlined below another root
                k = (fn, header)
                cur = loops.setdefault(k, {"sp": sp, "ok": True, "why": None, "n": 0})
                cur["n"] += 1
                if term is None:
                    cur["ok"] = False
                else:
                    cur["why"] = term
        from ..axioms import match_axiom
        for (fn, header), info in sorted(loops.items()):
            key = "loop|%s|#%d" % (fn, sorted(h for (f, h) in loops if f == fn).index(header))
            if info["ok"]:
                res.count("r-term" + tag, 1, 1, 1)
                res.sample({"loop": key, "loc": info["sp"], "variant": info["why"]})
            else:
                ax = match_axiom(ctx.axioms, fn, "loop", "termination")
                res.count("r-term" + tag, 1, 0, 0)
                if ax is not None:
                    res.axioms_used.append("%s | %s" % (key, ax["reason"][:120]))
                else:
                    res.add("r-term" + tag, key, "loop without recognised strictly decreasing measure in %s" % fn,
                            info["sp"] or "")
        um = sorted({ev[2] for ev in e1["events"] if ev[1] == "unmodelled"})
        res.analysed["unmodelled" + tag] = um[:50]
    return res
