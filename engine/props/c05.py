"""C05 - lax parsing extends strict parsing (clause: per-layer strict-vs-lax agreement on strict-Ok paths)."""
from ..check import Result, e1_health
from .c07 import inv_from_e1

LEVEL = "other"
EXPLANATION = (
    "Decides one necessary clause for three layer pairs (MacsecSlice / LaxMacsecSlice, Ipv4Slice / LaxIpv4Slice, "
    "IpHeaders::from_ipv4_slice / from_ipv4_slice_lax): the strict decoder is interpreted on a fully symbolic slice; on "
    "each of its Ok paths the lax decoder is interpreted in the same state; it must return Ok with the same header, "
    "the same payload range and length source (fields matched by name), `incomplete == false` and no stop error. "
    "NOT decided: the IPv6 pairs (joint walks over extension chains exceed the time budget), the whole-packet lax "
    "cursors, where a stop error is attached after a strict failure, and the incomplete-exactly-when clause.")
ASSUMPTIONS = ["field / variant names of the lax types mirror the strict ones (positional payloads are paired by kind)"]


def collect(res, recs, tag, known_ok=()):
    for rec in recs:
        rule = rec["rule"] + tag
        key = "%s|%s" % (rec["rule"], rec["what"])
        if not rec["problems"]:
            res.count(rule, 1, 1, 1)
            res.sample({k: rec.get(k) for k in ("rule", "what", "paths", "ok", "err", "sp") if rec.get(k)})
        else:
            res.count(rule, 1, 0, 0)
            for pr in rec["problems"][:1]:
                res.add(rule, key + "|" + pr[:80], "%s: %s" % (rec["what"], "; ".join(rec["problems"][:2])),
                        rec.get("sp") or "")


def check(ctx):
    from .. import rules_agree
    res = Result()
    for cfg in ctx.configs:
        F = ctx.facts(cfg)
        e1 = ctx.e1(cfg)
        e1_health(ctx, res, e1)
        tag = "" if cfg == "std" else "@" + cfg
        recs = rules_agree.run(F, inv_from_e1(e1), e1.get("summaries"), rules=("lax",))
        collect(res, recs, tag)
    return res
