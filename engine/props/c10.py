"""C10 - PacketBuilder emits packets of the announced size (clause: size() == bytes written; no panic)."""
from ..check import Result, e1_site_findings, e1_health
from .c07 import inv_from_e1
from .c05 import collect

LEVEL = "other"
EXPLANATION = (
    "(size) final_write_with_net is interpreted once per builder typestate instantiation (start state: the inferred "
    "invariant of PacketBuilderStep<B>) with every serialiser replaced by its length - X::to_bytes() by "
    "X::header_len() (lemma proved by C08 len), Ipv{4,6}Extensions::write_internal by header_len() on Ok (lemma proved "
    "by C12 announce), write_all(slice) by len(slice); on every path that returns Ok the sum of the written lengths "
    "equals final_size(builder, payload.len()) evaluated on the original builder value.  (entry) write, write_to_vec and "
    "write_to_slice of each final step are interpreted up to their call of final_write_with_net: on every joint path "
    "they hand it the same builder state (compared field by field) and the same payload, so the three differ only in "
    "the writer.  (e1-panic) every panic-capable terminator of packet_builder:: "
    "is discharged under the typestate invariants.  NOT decided: that strict parsing accepts the emitted bytes and "
    "recovers the inputs, consistency of ether types / protocol numbers / length fields / checksums with the layers "
    "(the UDP length cast is C14's, error discipline C16's).")
ASSUMPTIONS = ["the two length lemmas are the registered checks C08 (len) and C12 (announce)",
               "the writer does not fail (C16 decides what happens when it does)"]


def check(ctx):
    from .. import rules_size
    res = Result()
    for cfg in ctx.configs:
        F = ctx.facts(cfg)
        e1 = ctx.e1(cfg)
        e1_health(ctx, res, e1)
        tag = "" if cfg == "std" else "@" + cfg
        e1_site_findings(ctx, res, "e1-panic" + tag, e1,
                         lambda fn, kind, desc, s: kind == "panic" and fn.startswith("packet_builder::"))
        recs = rules_size.run(F, inv_from_e1(e1), e1.get("summaries"))
        collect(res, recs, tag)
        if F.bodies.get("packet_builder::PacketBuilderStep::<transport::udp_header::UdpHeader>::write") is not None:
            # (write<T: io::Write> only exists with feature std)
            recs = rules_size.run_entry(F, inv_from_e1(e1), e1.get("summaries"))
            collect(res, recs, tag)
    return res
