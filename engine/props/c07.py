"""C07 - length and content errors describe the real fault."""
import json
import os
from ..check import Result, VERIF
from ..lin import lin_from_key

LEVEL = "other"
EXPLANATION = ("Exhaustive over all construction sites of LenError and all call sites whose callee can return one: "
               "(gda) the path condition at each construction entails the relation the record asserts, `len` is the "
               "length that was compared, layer/len_source/relation belong to the module's wire-format table; "
               "(offset) every error handed up from a callee that received a sub-slice is fixed up by exactly the "
               "sub-slice's offset (plus the cursor's consumed-byte count); (len-source) a header length field is "
               "named as source only when it - not the enclosing slice - cut the data handed to the failing layer.")
ASSUMPTIONS = ["callee results are unconstrained values of their type in the offset pass (inline depth 0)",
               "content-error operands (version, ihl, data offset ...) are covered by C03/C08 field maps, not here"]
RULE = ("one instance = one LenError construction reached on one path (gda) or one returned error derived from one "
        "callee result (offset/len-source); non-trivial = the check needed path facts")


def inv_from_e1(e1):
    return {sp: {"top": v["top"], "disjuncts": [[lin_from_key(k) for k in d] for d in v["disjuncts"]],
                 "atoms": v.get("atoms", {})} for sp, v in e1["inv"].items()}


def module_of(fn):
    p = fn
    if p.startswith("<"):
        p = p[1:].split(" as ")[0]
    parts = p.split("::")
    # drop type and function segments: keep lowercase module segments
    mod = []
    for s in parts:
        if s and (s[0].isupper() or s.startswith("{") or s.startswith("<")):
            break
        mod.append(s)
    return "::".join(mod)


def lookup(spec, mod):
    best = None
    for k in spec:
        if mod == k or mod.startswith(k + "::"):
            if best is None or len(k) > len(best):
                best = k
    return best


def check(ctx):
    from .. import rules_len
    res = Result()
    with open(os.path.join(VERIF, "spec", "len_errors.json")) as f:
        spec = json.load(f)["modules"]
    for cfg in ctx.configs:
        F = ctx.facts(cfg)
        e1 = ctx.e1(cfg)
        tag = "" if cfg == "std" else "@" + cfg
        out = rules_len.run(F, inv_from_e1(e1), summaries=e1.get("summaries", {}))
        res.analysed["functions_returning_len_error" + tag] = len(out)
        seen = set()
        ordinal = {}
        for r in out:
            if r["err"]:
                res.errors.append("rules_len crashed on %s: %s" % (r["fn"], r["err"].strip().splitlines()[-1]))
            if r["aborted"]:
                res.add("len-abort" + tag, "abort|" + r["fn"], "analysis budget exceeded in %s" % r["fn"], "")
            for rec in r["records"]:
                rule = rec["rule"] + tag
                if rec["rule"] == "gda":
                    ident = (rec["fn"], rec.get("layer"), rec.get("len_source"), rec.get("req_expr"), rec.get("len_expr"))
                else:
                    ident = (rec["fn"], rec.get("callee"), rec.get("added"), rec.get("len_source_set"))
                probs = list(rec["problems"])
                if rec["rule"] == "gda":
                    mod = module_of(rec["fn"])
                    k = lookup(spec, mod)
                    rel = {"required_len > len": ">", "required_len < len": "<", "required_len != len": "!="}.get(
                        rec.get("relation"))
                    if k is not None and rec.get("relation") not in (None, "?"):
                        allowed = spec[k]
                        if not any(a[0] == rec.get("layer") and a[1] == rec.get("len_source") and a[2] == rel
                                   for a in allowed):
                            probs.append("record (layer %s, len_source %s, %s) is not one the module %s may report "
                                         "(spec/len_errors.json: %s)" % (rec.get("layer"), rec.get("len_source"),
                                                                         rec.get("relation"), k, allowed))
                    elif k is None:
                        res.notes.append("module %s not covered by spec/len_errors.json" % mod)
                    if rec.get("nonzero_offset_at_creation"):
                        probs.append("layer_start_offset is %s at creation (must be 0 relative to the layer's own slice)"
                                     % rec["nonzero_offset_at_creation"])
                key_base = "%s|%s|%s" % (rec["rule"], rec["fn"], "|".join(str(x) for x in ident[1:]))
                if (key_base, tuple(probs)) in seen:
                    continue
                seen.add((key_base, tuple(probs)))
                if probs and rec["rule"] == "offset":
                    from ..axioms import match_axiom
                    ax = match_axiom(ctx.axioms, rec["fn"], "offset", rec.get("callee") or "")
                    if ax is not None:
                        res.count(rule, 1, 0, 0)
                        res.axioms_used.append("%s | %s" % (key_base, ax["reason"][:120]))
                        continue
                if rec.get("inconclusive"):
                    res.notes.append("inconclusive offset check (callee does not expose its wire dependent offset): "
                                     "%s -> %s" % (rec["fn"], rec.get("callee")))
                if probs:
                    res.count(rule, 1, 0, 0)
                    for pr in probs:
                        kind = pr.split(" ")[0:3]
                        res.add(rule, key_base + "|" + "_".join(kind), pr, rec.get("sp") or "", "")
                else:
                    res.count(rule, 1, 1, 1)
                    if rec["rule"] == "gda":
                        res.sample({"site": rec["sp"], "fn": rec["fn"], "layer": rec.get("layer"),
                                    "relation": rec.get("relation"), "required_len": rec.get("req_expr"),
                                    "len": rec.get("len_expr")})
                    else:
                        res.sample({"site": rec["sp"], "fn": rec["fn"], "callee": rec.get("callee"),
                                    "fixup": rec.get("added"), "expected": rec.get("expected")})
    return res
