"""C08 - every header value survives encode -> decode unchanged."""
from ..check import Result, e1_health
from .c07 import inv_from_e1

LEVEL = "proof"
EXPLANATION = (
    "Symbolic composition on the MIR: for every header type with a to_bytes the encoder is interpreted on a fully "
    "symbolic value (type invariants assumed, one start state per enum variant) giving each output byte as a bit-field "
    "structured linear expression over the field atoms; (rt) every decoder (from_bytes / from_slice) is interpreted on "
    "those bytes and the decoded value is compared field by field with the original under the joint path condition; "
    "(rt2) the decoders are interpreted on a fully symbolic input, the accepted values re-encoded and decoded again: "
    "the number of consumed bytes equals the number of emitted bytes and decode(to_bytes(decode(S))) == decode(S) "
    "(bytes that differ from S are bits the decoder does not read: reserved / normalised); (len) header_len() equals "
    "the number of bytes to_bytes emits; (writers) write() hands the writer exactly the bytes of to_bytes().")
ASSUMPTIONS = [
    "models of the core / arrayvec functions (engine/models.py); bit-field algebra of engine/bits.py",
    "values outside the property's quantification (raw `Unknown` variants carrying an assigned type number, fields "
    "that are not mutually consistent) are listed with reasons in spec/roundtrip.json; direction rt2 needs no such "
    "precondition because it starts from the decoder's image",
    "headers whose byte buffers exceed 64 bytes (ArpPacket, IpAuthHeader, Ipv6RawExtHeader) are compared by length "
    "only: their contents are listed as undecided",
]


def collect(ctx, res, out, tag, spec):
    und = {e["key"]: e for e in spec.get("undecided", [])}
    for r in out:
        if r["err"]:
            res.errors.append("round-trip rules crashed on %s: %s" % (r["type"], r["err"].strip().splitlines()[-1]))
        for rec in r["records"]:
            name = rec["type"].rsplit("::", 1)[1]
            rule = rec["rule"] + tag
            key = "%s|%s|%s" % (rec["rule"], name, rec["what"])
            if not rec["problems"]:
                res.count(rule, 1, 1, 1)
                res.sample({"rule": rec["rule"], "type": name, "against": rec["what"], "paths": rec.get("paths"),
                            "loc": rec.get("sp")})
                continue
            if key in und:
                # not claimed: listed with its reason, not counted among the obligations of the claim
                res.notes.append("undecided %s: %s" % (key, und[key]["reason"][:160]))
                res.analysed["undecided"] = res.analysed.get("undecided", 0) + 1
                continue
            res.count(rule, 1, 0, 0)
            for pr in rec["problems"][:2]:
                res.add(rule, key, "%s %s / %s: %s" % (rec["rule"], name, rec["what"], pr), rec.get("sp") or "")


def check(ctx):
    from .. import rules_rt
    res = Result()
    spec = rules_rt.load_spec()
    for cfg in ctx.configs:
        F = ctx.facts(cfg)
        e1 = ctx.e1(cfg)
        e1_health(ctx, res, e1)
        tag = "" if cfg == "std" else "@" + cfg
        out = rules_rt.run(F, inv_from_e1(e1), e1.get("summaries"))
        res.analysed["header_types" + tag] = len(out)
        collect(ctx, res, out, tag, spec)
    return res
