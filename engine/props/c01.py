"""C01 - decoding never touches memory outside the given slice."""
from ..check import Result, e1_site_findings, e1_health
from .. import scope

LEVEL = "proof"
EXPLANATION = ("Every unsafe operation of the crate (unchecked reads, raw pointer arithmetic, from_raw_parts, set_len, "
               "push_unchecked, copy_nonoverlapping, assume_init, unwrap_unchecked, unreachable_unchecked, transmute, "
               "offset_from) is a proof obligation discharged by path-sensitive abstract interpretation of the MIR "
               "with inferred type invariants; structural rules enumerate unsafe fns, invariant field visibility and "
               "pointer-to-integer flows.")
ASSUMPTIONS = [
    "contracts of the modelled core/alloc/arrayvec functions as transcribed in engine/models.py",
    "callers of public unsafe fns outside the crate honour the documented # Safety contract",
    "64-bit target; cfg(target_pointer_width=16|32) code is not compiled and not covered",
    "only the lib target (no tests / examples) is analysed",
]

UNSAFE_KINDS = ("read", "write", "mkslice", "setlen", "push", "prec", "valid", "addr")


def check(ctx):
    res = Result()
    for cfg in ctx.configs:
        F = ctx.facts(cfg)
        e1 = ctx.e1(cfg)
        e1_health(ctx, res, e1)
        tag = "" if cfg == "std" else "@" + cfg
        n = e1_site_findings(ctx, res, "e1-unsafe" + tag, e1, lambda fn, kind, desc, s: kind in UNSAFE_KINDS)
        res.analysed["bodies" + tag] = e1["bodies"]
        res.analysed["roots" + tag] = len(e1["roots"])
        res.analysed["invariants" + tag] = sum(1 for v in e1["inv"].values() if not v["top"])
        # fail closed: aborted roots leave unsafe operations unexplored
        for ev in e1["events"]:
            if ev[1] == "abort":
                root = ev[2]
                if root_has_unsafe(F, root):
                    res.add("e1-abort" + tag, "abort|" + root, "analysis budget exceeded in %s (unsafe operations "
                            "reachable within inline depth are unexplored)" % root, F.bodies[root]["span"], ev[3])
        own_rules(ctx, res, F, e1, tag)
    return res


def root_has_unsafe(F, root, depth=3):
    seen = {root}
    frontier = [root]
    cg = scope.call_graph(F)
    for _ in range(depth):
        nf = []
        for x in frontier:
            b = F.bodies.get(x)
            if b is None:
                continue
            for blk in b["blocks"]:
                t = blk["term"]
                if t["t"] == "call" and t["callee"].get("unsafe"):
                    return True
            for y in cg.get(x, ()):
                if y not in seen:
                    seen.add(y)
                    nf.append(y)
        frontier = nf
    return False


def own_rules(ctx, res, F, e1, tag):
    """R-own: structural who-may rules"""
    # 1. every crate `unsafe fn` is enumerated; non-public ones must have at least one analysed caller context
    unsafe_fns = [b for b in F.body_list if b.get("unsafe")]
    res.count("own-unsafe-fns" + tag, len(unsafe_fns), len(unsafe_fns), 0)
    res.analysed["unsafe_fns" + tag] = len(unsafe_fns)
    # 2. fields taking part in an inferred invariant are not public (by construction public fields are projected
    #    out of invariants); report invariant-bearing slice types whose slice field is `pub`
    for p, a in F.adts.items():
        if not (a["local"] and a["kind"] == "struct"):
            continue
        name = p.rsplit("::", 1)[-1]
        if not name.endswith("Slice") or name.endswith(("PayloadSlice",)) and False:
            continue
        for f in a["variants"][0]["fields"]:
            t = F.types[f["ty"]] if isinstance(f["ty"], int) else f["ty"]
            if isinstance(t, dict) and t["k"] == "ref" and not t["mut"]:
                to = F.types[t["to"]]
                if isinstance(to, dict) and to["k"] in ("slice", "array") and F.types[to["of"]] == "u8":
                    uses_unchecked = type_uses_unchecked(F, p)
                    res.count("own-slice-field" + tag, 1, 1 if (f["vis"] != "pub" or not uses_unchecked) else 0, 1)
                    if f["vis"] == "pub" and uses_unchecked:
                        res.add("own-slice-field" + tag, "pubfield|%s.%s" % (p, f["name"]),
                                "slice field %s.%s is public although accessors read it unchecked" % (p, f["name"]),
                                a.get("span", ""))
    # 3. pointer -> integer casts: only as differences of pointers into one region (position independence)
    n_expose = 0
    for b in F.body_list:
        for blk in b["blocks"]:
            for st in blk["stmts"]:
                if st["s"] == "assign" and st["rvalue"]["rv"] == "cast" and \
                        st["rvalue"]["kind"] in ("PointerExposeProvenance", "Transmute"):
                    n_expose += 1
    res.count("own-ptr-int" + tag, n_expose, n_expose, 0)
    res.analysed["ptr_to_int_or_transmute_casts" + tag] = n_expose


def type_uses_unchecked(F, adt_path):
    for b in F.body_list:
        st = b.get("self_ty")
        if st is None:
            continue
        t = F.types[st]
        if isinstance(t, dict) and t.get("path") == adt_path:
            for blk in b["blocks"]:
                tm = blk["term"]
                if tm["t"] == "call" and tm["callee"].get("unsafe"):
                    return True
    return False
