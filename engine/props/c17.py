"""C17 - typed control-message views follow their formats (clauses: NDP option iterator step, ARP Ethernet/IPv4 view)."""
from ..check import Result, e1_health
from .c07 import inv_from_e1
from .c05 import collect

LEVEL = "other"
EXPLANATION = (
    "(ndp-iter) NdpOptionsIterator::next is interpreted on a fully symbolic option area (17 paths): a yielded option "
    "advances the iterator by exactly 8 * length-field bytes, at least 8 and at most the remaining length, the option "
    "slice handed out is exactly the consumed prefix (options tile the area without gap or overlap), the remaining area "
    "is the suffix; ZeroLength is reported only when the length field is 0 and no option with length field 0 is "
    "yielded; after an error the area is empty; UnexpectedEndOfSlice states 8 * length field and the real remaining "
    "length; option_id is the input's type byte.  (arp-view) on every Ok path of ArpPacket::try_eth_ipv4 the hardware / "
    "protocol address sizes equal the lengths of the view's address arrays (taken from the view's type): whole "
    "addresses, nothing truncated.  The header round trips of the typed views (ICMPv4/v6, NDP headers, IGMP) are C08 "
    "instances.  NOT decided: the RFC type/code number tables, the fixed/variable split per message kind, IGMP version "
    "discrimination.")
ASSUMPTIONS = []


def check(ctx):
    from .. import rules_tcpopt
    res = Result()
    for cfg in ctx.configs:
        F = ctx.facts(cfg)
        e1 = ctx.e1(cfg)
        e1_health(ctx, res, e1)
        tag = "" if cfg == "std" else "@" + cfg
        recs = rules_tcpopt.run_c17(F, inv_from_e1(e1), e1.get("summaries"))
        collect(res, recs, tag)
        n_paths = sum(r.get("paths", 0) for r in recs)
        res.analysed["paths" + tag] = n_paths
        if n_paths < 15:
            res.errors.append("C17 rules analysed %d paths, expected at least 15" % n_paths)
    return res
