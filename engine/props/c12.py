"""C12 - extension-header chain bookkeeping is self-consistent."""
from ..check import Result, e1_site_findings, e1_health
from .c07 import inv_from_e1

LEVEL = "proof"
EXPLANATION = (
    "(walk) next_header() is interpreted with its loop unrolled (finite state) on a fully symbolic extension set - "
    "every combination of present headers and every sequence of next-header numbers - and write_internal() is "
    "interpreted in each of the walker's final states: the writer returns Ok exactly when the walker does and the same "
    "ExtsWalkError otherwise; (announce) on every Ok path the writer emits exactly header_len() bytes; (link) after "
    "set_next_headers(n), n not an extension header number, the walk from the returned number ends at Ok(n); (version) "
    "a function reporting an EtherType for an IP header set reports the one of the IP version selected on the path; "
    "(e1-panic) every panic-capable terminator of the chain functions is discharged. The decode-after-serialise clause "
    "('decoding those bytes yields the same set') is covered per header by C08, not for the chain as a whole.")
ASSUMPTIONS = [
    "the writer does not fail (I/O faults are C16's subject)",
    "loops of the walkers are exhausted within 10 (IPv6) / 4 (IPv4) iterations: the check fails closed otherwise",
]
SCOPE = ("net::ipv6_exts::Ipv6Extensions::", "net::ipv4_exts::Ipv4Extensions::", "net::ip_headers::IpHeaders::set_next_headers",
         "net::ip_headers::IpHeaders::next_header", "net::ip_headers::IpHeaders::header_len",
         "net::ipv6_routing_exts::")
SKIP = ("from_slice", "from_slice_lax", "read", "read_limited")


def in_scope(fn):
    if not fn.startswith(SCOPE):
        return False
    name = fn.rsplit("::", 1)[1].split("{")[0]
    return not any(name == s or name.startswith(s) for s in SKIP)


def check(ctx):
    from .. import rules_chain
    res = Result()
    for cfg in ctx.configs:
        F = ctx.facts(cfg)
        e1 = ctx.e1(cfg)
        e1_health(ctx, res, e1)
        tag = "" if cfg == "std" else "@" + cfg
        e1_site_findings(ctx, res, "e1-panic" + tag, e1, lambda fn, kind, desc, s: kind == "panic" and in_scope(fn))
        recs = rules_chain.run(F, inv_from_e1(e1), e1.get("summaries"))
        for rec in recs:
            rule = rec["rule"] + tag
            key = "%s|%s" % (rec["rule"], rec["what"])
            n = max(1, rec.get("paths") or 0) if rec["rule"] == "walk" else 1
            if not rec["problems"]:
                res.count(rule, n, n, n)
                res.sample({k: rec.get(k) for k in ("rule", "what", "paths", "ok", "err", "announce", "sp") if rec.get(k)})
            else:
                res.count(rule, n, 0, 0)
                for pr in rec["problems"][:3]:
                    res.add(rule, key, "%s: %s" % (rec["what"], pr), rec.get("sp") or "")
    return res
