"""Rules for error discipline of the I/O paths (C16).

Every function of the crate that calls something fallible is interpreted (inline depth 0; Result-returning callees are
never inlined, so every callee result is an unconstrained `Result` whose discriminant only the caller's own control flow
can refine) with these hooks:

 * propagate: at every return of the root, for every result R of an I/O-fallible call made on the path: if R may be Err
   (its discriminant is not entailed to be Ok) the root's return value must be Err under the assumption R = Err.
   (a dropped `Result`, `.ok()`, `let _ =`, `if let Ok(..)` without else, an Err arm that falls through ... all fail);
 * prefix: at every call that can write (or read), no earlier I/O result on the path may still be possibly-Err
   (whatever was written before a fault stays a prefix: nothing is written after a failed write);
 * space: at every construction of a space error (SliceWriteSpaceError, SliceCoreWriteError, BuildSliceWriteError::Space)
   the path condition entails required_len > len, `len` is the length of a mutable byte slice reachable from the
   arguments, and on the sibling Ok paths of the guard len >= required_len holds and the slice handed back (if any)
   starts exactly required_len bytes into the given slice;
 * budget: inside LimitedReader every call on the wrapped reader is `read_exact(buf)` on a path entailing
   len(buf) <= max_len - read_len, and on the following Ok path read_len grew by exactly len(buf).
"""
import os
import multiprocessing as mp
from .lin import Lin, show_lin
from .values import *
from .absint import Interp
from .models import M
from .rules_val import mentions

RESULT = "core::result::Result"
IO_ERR_NAMES = {
    "std::io::Error", "std::io::error::Error", "err::slice_write_space_error::SliceWriteSpaceError",
    "writer::SliceCoreWriteError", "writer::WriteError",
}
SPACE_ERRS = {
    "err::slice_write_space_error::SliceWriteSpaceError": (0, 1),
    "writer::SliceCoreWriteError": (0, 1),
}
IO_TRAITS = ("std::io::Write::", "std::io::Read::", "writer::CoreWrite::")
WRITE_SINKS = ("std::io::Write::", "writer::CoreWrite::")
LIMITED = "io::limited_reader::LimitedReader"
BSWE = "err::packet::build_slice_write_error::BuildSliceWriteError"


def result_err_ty(I, t):
    t = I.rt(t)
    if isinstance(t, dict) and t["k"] == "adt" and t["path"] == RESULT and len(t["args"]) == 2 and "t" in t["args"][1]:
        return I.rt(t["args"][1]["t"])
    return None


def ioish(F, e, depth=0):
    """error type that can carry an I/O or space fault"""
    if isinstance(e, int):
        e = F.types[e]
    if isinstance(e, str):
        return False
    k = e["k"]
    if k == "alias":
        return "CoreWrite" in e["s"] or "io::" in e["s"]
    if k == "param":
        return True
    if k == "adt":
        if e["path"] == "core::convert::Infallible":
            return False
        if e["path"] in IO_ERR_NAMES:
            return True
        if any("t" in a and ioish(F, a["t"], depth + 1) for a in e["args"]):
            return True
        adt = F.adts.get(e["path"])
        if adt and adt["local"] and depth < 3:
            return any(ioish(F, f["ty"], depth + 1) for v in adt["variants"] for f in v["fields"])
    return False


def callee_name(callee):
    return callee.get("res") or callee.get("decl") or "?"


def is_io_callee(callee):
    d = callee.get("decl") or ""
    return d.startswith(IO_TRAITS)


def candidate_functions(F):
    """functions with at least one call whose result type is Result<_, io-ish E> (callee local or an io trait)"""
    out = []
    for b in F.body_list:
        if b.get("derived"):
            continue
        if b["path"].startswith(("err::", "<err::")):
            continue
        hit = False
        for blk in b["blocks"]:
            t = blk["term"]
            if t["t"] != "call":
                continue
            c = t["callee"]
            if "indirect" in c:
                continue
            if not (c.get("local") or is_io_callee(c)):
                continue
            lt = b["locals"][t["dest"]["l"]][0] if not t["dest"].get("p") else None
            if lt is None:
                continue
            ty = F.types[lt] if isinstance(lt, int) else lt
            if isinstance(ty, dict) and ty["k"] == "adt" and ty["path"] == RESULT and len(ty["args"]) == 2 \
                    and "t" in ty["args"][1] and ioish(F, ty["args"][1]["t"]):
                hit = True
                break
        if not hit:
            # constructions of space errors
            for blk in b["blocks"]:
                for s in blk["stmts"]:
                    if s["s"] == "assign" and s["rvalue"]["rv"] == "agg" and s["rvalue"]["kind"].get("agg") == "adt" and \
                            (s["rvalue"]["kind"]["path"] in SPACE_ERRS or s["rvalue"]["kind"]["path"] == BSWE):
                        hit = True
        if hit or b["path"].startswith(LIMITED):
            out.append(b["path"])
    return out


class ErrInterp(Interp):
    def __init__(self, F, inv):
        super().__init__(F, M, inv, max_depth=0, budget=150000)
        self.opts["bitor_oblig"] = False
        self.opts["cast_oblig"] = False
        self.inst = {}  # (rule, fn, callee/desc, ordinal key) -> {"sp":..., "problems": set()}
        self.space = []  # (required Lin, len Lin, sp, prefix trace, next block, origin)
        self.ok_states = []
        self.ret_hook = self.on_ret

    # ------------------------------------------------------------------ plumbing
    def analyze_root(self, body, assume_inv=True):
        self._body = body
        super().analyze_root(body, assume_inv)

    def new_frame(self, st, body, args, ret_k, callsite, tysubst=None):
        fr = super().new_frame(st, body, args, ret_k, callsite, tysubst)
        if len(st.frames) == 1:
            self.entry_regions = self.mutable_regions(st)
            # (a generic root is started once per typestate instantiation: Ok/Err paths are only compared within one)
            self._starts = getattr(self, "_starts", 0) + 1
            st.notes["start"] = self._starts
        return fr

    def call_body(self, st, body, args, dty, ret_k, site, callee=None, force=False):
        # never look inside a Result-returning callee: the caller alone must deal with its failure
        if result_err_ty(self, body["locals"][0][0]) is not None and not body.get("unsafe"):
            return self.havoc_call(st, args, dty, ret_k, None, callee_body=body)
        return super().call_body(st, body, args, dty, ret_k, site, callee, force)

    def rec(self, rule, what, site, sp):
        k = (rule, self._body["path"], what, site)
        r = self.inst.get(k)
        if r is None:
            r = self.inst[k] = {"sp": sp, "problems": []}
        return r

    def problem(self, r, msg):
        if msg not in r["problems"] and len(r["problems"]) < 4:
            r["problems"].append(msg)

    def discr_lin(self, v):
        if not isinstance(v, VAdt) or v.path != RESULT:
            return None
        if v.variant is not None:
            return Lin.const(v.variant)
        if v.key is None:
            return None
        return Lin.atom(self.discr_atom(v))

    def may_be_err(self, st, d):
        # Ok has discriminant 0
        return not st.entails(-d)

    # ------------------------------------------------------------------ hooks
    def exec_call(self, st, fr, t):
        callee = t["callee"]
        if len(st.frames) == 1 and "indirect" not in callee:
            name = callee_name(callee)
            decl = callee.get("decl") or ""
            writes = decl.startswith(WRITE_SINKS) or self.takes_writer(fr, t)
            if writes:
                for (d, cn, site, sp, is_w) in st.notes.get("pend", ()):
                    if is_w and self.may_be_err(st, d):
                        r = self.rec("prefix", cn, site, sp)
                        self.problem(r, "call to %s at %s is reached although the earlier result of %s may be Err "
                                        "(bytes written after a failed write are not a prefix of the encoding)"
                                     % (name, self.cur_sp_of(fr, t), cn))
            if self._body["path"].startswith(LIMITED) and decl.startswith("std::io::Read::"):
                self.check_budget(st, fr, t, decl)
        return super().exec_call(st, fr, t)

    def cur_sp_of(self, fr, t):
        return t.get("sp") or "?"

    def takes_writer(self, fr, t):
        """a crate function handed a writer (generic `&mut W`) or a `&mut [u8]` output"""
        c = t["callee"]
        if not c.get("local"):
            return False
        for a in t["args"]:
            ty = self.operand_type(fr, a)
            ty = self.rt(ty) if ty is not None else None
            if isinstance(ty, dict) and ty["k"] == "ref" and ty["mut"]:
                to = self.rt(ty["to"])
                if isinstance(to, dict) and to["k"] == "param":
                    return True
                if isinstance(to, dict) and to["k"] == "adt" and to["path"].startswith("writer::"):
                    return True
                if isinstance(to, dict) and to["k"] == "slice" and self.rt(to["of"]) == "u8":
                    return True
        return False

    def on_ret(self, st, fr, val, callee, dty, site, sp):
        if len(st.frames) != 1 or "indirect" in callee:
            return
        if not (callee.get("local") or is_io_callee(callee)):
            return
        e = result_err_ty(self, dty) if dty is not None else None
        if e is None or not ioish(self.F, e):
            return
        d = self.discr_lin(val)
        name = callee_name(callee)
        r = self.rec("propagate", name, site, sp)
        if d is None:
            self.problem(r, "result of %s is not tracked by the analysis" % name)
            return
        decl = callee.get("decl") or ""
        is_w = decl.startswith(WRITE_SINKS) or decl.startswith("std::io::Read::") or True
        st.notes["pend"] = st.notes.get("pend", ()) + ((d, name, site, sp, is_w),)
        if self._body["path"].startswith(LIMITED) and decl.startswith("std::io::Read::"):
            st.notes["budget_call"] = (d, st.notes.get("budget_buf"), st.notes.get("budget_old"))

    def exec_return(self, st, fr):
        if len(st.frames) == 1:
            self.check_final(st, fr, fr.locals.get(0))
        return super().exec_return(st, fr)

    def check_final(self, st, fr, rv):
        rd = self.discr_lin(rv)
        for (d, cn, site, sp, is_w) in st.notes.get("pend", ()):
            r = self.rec("propagate", cn, site, sp)
            r["paths"] = r.get("paths", 0) + 1
            if not self.may_be_err(st, d):
                continue
            if rd is None:
                self.problem(r, "result of %s may be Err on a path where %s returns a value that cannot report it"
                             % (cn, self._body["path"]))
                continue
            s2 = st.fork_facts()
            try:
                s2.assume(("eq", d - 1))
                if not s2.feasible():
                    continue
            except Infeasible:
                continue
            if not s2.entails(rd - 1):
                self.problem(r, "result of %s may be Err on a path where %s does not return Err (error dropped or "
                                "success reported after a fault)" % (cn, self._body["path"]))
        if rd is not None and isinstance(rv, VAdt) and (rv.variant == 0 or (rv.variant is None and not st.entails(rd - 1))):
            s2 = st.fork_facts()
            s2.notes = dict(st.notes)
            s2.notes["ok_rv"] = rv
            self.ok_states.append(s2)
        if rd is not None and isinstance(rv, VAdt) and rv.variant == 1:
            self.check_space_return(st, fr, rv)
        bc = st.notes.get("budget_call")
        if bc is not None:
            self.check_budget_after(st, fr, rv, bc)

    # ------------------------------------------------------------------ space errors
    def space_errors_in(self, v, depth=0):
        """(required, len or None, kind) of every space error value inside v"""
        if depth > 5 or v is None:
            return
        if isinstance(v, VAdt):
            if v.path in SPACE_ERRS and v.fields:
                ri, li = SPACE_ERRS[v.path]
                yield v.fields[ri], v.fields[li], v.path.split("::")[-1]
                return
            if v.path == BSWE and v.fields and v.variant == 0:
                yield v.fields[0], None, "BuildSliceWriteError::Space"
                return
            if v.fields:
                for f in v.fields:
                    if isinstance(f, (VAdt, VTuple)):
                        for x in self.space_errors_in(f, depth + 1):
                            yield x
        elif isinstance(v, VTuple):
            for f in v.fields:
                for x in self.space_errors_in(f, depth + 1):
                    yield x

    def mutable_regions(self, st):
        out = []
        fr = st.frames[0]
        for i in range(fr.body["arg_count"]):
            a = fr.locals.get(i + 1)
            if isinstance(a, VRegion) and a.mut:
                out.append(a)
            elif isinstance(a, VRef):
                try:
                    tv = self.load(st, ("place", a.fid, a.local, a.projs))
                except Exception:
                    tv = None
                if isinstance(tv, VAdt) and tv.fields:
                    for f in tv.fields:
                        if isinstance(f, VRegion) and f.mut:
                            out.append(f)
                elif isinstance(tv, VRegion) and tv.mut:
                    out.append(tv)
        return out

    def check_space_return(self, st, fr, rv):
        """an Err return that carries a space error: the path must entail required_len > len(slice)"""
        for (req, ln, kind) in self.space_errors_in(rv):
            r = self.rec("space", kind, None, self._body["span"])
            r["err_paths"] = r.get("err_paths", 0) + 1
            if not isinstance(req, VInt) or (ln is not None and not isinstance(ln, VInt)):
                self.problem(r, "required_len / len are not integers the analysis tracks")
                continue
            regs = self.entry_regions
            g = None
            if ln is not None:
                for x in regs:
                    dd = ln.lin - x.len
                    if st.entails(dd) and st.entails(-dd):
                        g = x
                        break
                if g is None:
                    self.problem(r, "len=%s is not the length of a mutable byte slice reachable from the arguments"
                                 % show_lin(ln.lin))
                    continue
            elif len(regs) == 1:
                g = regs[0]
            else:
                self.problem(r, "no unique output slice among the arguments")
                continue
            r["required_len"] = show_lin(req.lin)
            if not st.entails(req.lin - g.len - 1):
                self.problem(r, "an Err(space) return does not entail required_len > len (required_len=%s len=%s): "
                                "either a sufficient slice is rejected or the stated requirement is too small"
                             % (show_lin(req.lin), show_lin(g.len)))
            self.space.append((req.lin, g, st.notes.get("start")))

    def finish_space(self):
        seen = set()
        for (req, g, start) in self.space:
            k = (req.key(), g.origin, start)
            if k in seen:
                continue
            seen.add(k)
            kind = "accept"
            r = self.rec("space", "Ok paths", None, self._body["span"])
            oks = [s for s in self.ok_states if s.notes.get("start") == start]
            r["ok_paths"] = r.get("ok_paths", 0) + len(oks)
            for s in oks:
                if not s.entails(g.len - req):
                    self.problem(r, "an Ok return does not entail len >= required_len=%s: a too short slice is accepted "
                                    "(or the stated requirement is too large)" % show_lin(req))
                    break
                rv = s.notes.get("ok_rv")
                if isinstance(rv, VAdt) and rv.fields:
                    for (_, x) in self.walk_regions(rv):
                        if x.origin == g.origin:
                            dd = x.off - g.off - req
                            if not (s.entails(dd) and s.entails(-dd)):
                                self.problem(r, "the slice handed back on Ok starts at offset %s of the given slice, "
                                                "required_len is %s" % (show_lin(x.off - g.off), show_lin(req)))
                            break

    # ------------------------------------------------------------------ LimitedReader budget
    def self_fields(self, st):
        fr = st.frames[0]
        a = fr.locals.get(1)
        if isinstance(a, VRef):
            tv = self.load(st, ("place", a.fid, a.local, a.projs))
            if isinstance(tv, VAdt) and tv.fields and tv.path == LIMITED:
                return tv
        return None

    def field_index(self, name):
        adt = self.F.adts.get(LIMITED)
        for i, f in enumerate(adt["variants"][0]["fields"]):
            if f["name"] == name:
                return i
        return None

    def check_budget(self, st, fr, t, decl):
        r = self.rec("budget", decl, self.cur_site, t.get("sp"))
        if decl != "std::io::Read::read_exact":
            self.problem(r, "LimitedReader calls %s on the wrapped reader (only read_exact has a bounded pull)" % decl)
            return
        buf = self.eval_operand(st, fr, t["args"][1])
        me = self.self_fields(st)
        mi, ri = self.field_index("max_len"), self.field_index("read_len")
        if me is None or mi is None or ri is None or not isinstance(buf, VRegion):
            self.problem(r, "LimitedReader state not tracked")
            return
        mx, rd = me.fields[mi], me.fields[ri]
        goal = mx.lin - rd.lin - buf.len
        if not st.entails(goal):
            self.problem(r, "path condition does not entail len(buf) <= max_len - read_len before pulling from the "
                            "wrapped reader (%s)" % show_lin(goal))
        st.notes["budget_buf"] = buf.len
        st.notes["budget_old"] = (mx.lin, rd.lin)

    def check_budget_after(self, st, fr, rv, bc):
        d, buflen, old = bc
        if buflen is None or old is None:
            return
        r = self.rec("budget", "read_len accounting", None, self._body["span"])
        if st.entails(-d):  # the inner read succeeded on this path
            me = self.self_fields(st)
            mi, ri = self.field_index("max_len"), self.field_index("read_len")
            if me is None:
                self.problem(r, "LimitedReader state not tracked")
                return
            dd = me.fields[ri].lin - old[1] - buflen
            if not (st.entails(dd) and st.entails(-dd)):
                self.problem(r, "after a successful pull of len(buf) bytes read_len did not grow by len(buf) (%s)"
                             % show_lin(dd))
            dm = me.fields[mi].lin - old[0]
            if not (st.entails(dm) and st.entails(-dm)):
                self.problem(r, "max_len changed during read_exact")


_F = None
_INV = None


def _work(paths):
    out = []
    for p in paths:
        b = _F.bodies[p]
        I = ErrInterp(_F, _INV)
        err = None
        try:
            I.analyze_root(b)
            I.finish_space()
        except Exception:
            import traceback
            err = traceback.format_exc()
        aborted = any(e[0] == "abort" for e in I.sink.events)
        recs = []
        for (rule, fn, what, site), r in I.inst.items():
            recs.append({"rule": rule, "fn": fn, "what": what, "site": site, **r})
        out.append({"fn": p, "records": recs, "err": err, "aborted": aborted})
    return out


def run(F, inv, jobs=None, only=None):
    global _F, _INV
    _F = F
    _INV = inv
    fns = candidate_functions(F)
    if only:
        fns = [f for f in fns if only in f]
    jobs = jobs or min(16, os.cpu_count() or 4)
    chunks = [fns[i::jobs * 4] for i in range(jobs * 4)]
    chunks = [c for c in chunks if c]
    res = []
    ctx = mp.get_context("fork")
    with ctx.Pool(jobs) as pool:
        for r in pool.imap_unordered(_work, chunks):
            res.extend(r)
    res.sort(key=lambda r: r["fn"])
    return res
