"""TCP option rules (C13).

 * iter:  `TcpOptionsIterator::next` is interpreted on a fully symbolic option area R.  On every path:
            Some(Ok(elem))  - the remaining area is R advanced by k bytes with 1 <= k <= len(R) (elements tile a prefix,
                              every step makes progress);
            Some(Err(e))    - the remaining area is empty (the iterator stays exhausted) and the error states the real
                              kind (R[0]), size (R[1]) and remaining length (len(R));
            None            - R is empty or starts with the end-of-list kind, and the remaining area is empty.
 * fold:  the closure that `TcpOptions::try_from_elements` folds over the elements to obtain the required size adds a
          positive amount that does not depend on the accumulator on *every* path (otherwise the reported size is not the
          size of the whole list)."""
import os
import time
from .lin import Lin, show_lin
from .values import *
from .sib import Sib, OPTION, RESULT

IT = "<transport::tcp_options_iterator::TcpOptionsIterator as core::iter::Iterator>::next"
FOLD = "transport::tcp_options::TcpOptions::try_from_elements::{closure#0}"


def region_of(v):
    if isinstance(v, VAdt) and v.fields:
        for f in v.fields:
            if isinstance(f, VRegion):
                return f
    return None


def check_iter(S, F):
    b = F.bodies.get(IT)
    r = {"rule": "iter", "what": "TcpOptionsIterator::next", "sp": b["span"] if b else "", "problems": [], "paths": 0,
         "ok": 0, "err": 0, "none": 0}
    if b is None:
        r["problems"].append("function not found")
        return r
    I = S.interp()
    st = State()
    a0 = I.materialize(st, b["locals"][1][0], ("to", 0))
    self0 = I.load(st, ("place", a0.fid, a0.local, a0.projs))
    R = region_of(self0)
    if R is None:
        r["problems"].append("option area of the iterator is not tracked")
        return r
    fin, probs, I = S.run(b, st, [a0], I)
    r["problems"] += probs
    adt_e = F.adts.get("transport::tcp_option_read_error::TcpOptionReadError")
    for (s1, rv) in fin:
        if not s1.feasible():
            continue
        r["paths"] += 1
        now = region_of(I.load(s1, ("place", a0.fid, a0.local, a0.projs)))
        if now is None or now.origin != R.origin:
            r["problems"].append("remaining option area is not a sub-slice of the given one")
            continue
        if not (isinstance(rv, VAdt) and rv.path == OPTION and rv.variant is not None):
            r["problems"].append("result of next() not decided on a path")
            continue
        adv = now.off - R.off
        if rv.variant == 0:  # None
            r["none"] += 1
            b0 = I.read_byte(s1, R.origin, R.off)
            empty = s1.entails(-R.len)
            end = not empty and s1.entails(-b0.lin)
            if not (empty or end):
                r["problems"].append("next() returns None although the area is neither empty nor starts with END")
            if not s1.entails(-now.len):
                r["problems"].append("after None the remaining area is not empty (the iterator does not stay exhausted)")
            continue
        item = rv.fields[0]
        if not (isinstance(item, VAdt) and item.path == RESULT and item.variant is not None):
            r["problems"].append("item class not decided on a path")
            continue
        if item.variant == 0:
            r["ok"] += 1
            if not (s1.entails(adv - 1) and s1.entails(R.len - adv)):
                r["problems"].append("an element is yielded without consuming 1..=len bytes (advance %s of %s)" % (
                    show_lin(adv), show_lin(R.len)))
            d = now.off + now.len - R.off - R.len
            if not (s1.entails(d) and s1.entails(-d)):
                r["problems"].append("the remaining area does not end where the given one ends")
        else:
            r["err"] += 1
            if not s1.entails(-now.len):
                r["problems"].append("after an error the remaining area is not empty (the iterator does not stay exhausted)")
            e = item.fields[0]
            if isinstance(e, VAdt) and e.variant is not None and adt_e:
                var = adt_e["variants"][e.variant]
                fs = dict(zip([f["name"] for f in var["fields"]], e.fields))
                b0 = I.read_byte(s1, R.origin, R.off).lin
                b1 = I.read_byte(s1, R.origin, R.off + 1).lin
                want = {"option_id": b0, "0": b0, "size": b1, "actual_len": R.len}
                for nm, v in fs.items():
                    if nm in want and isinstance(v, VInt) and not S.int_eq(s1, v.lin, want[nm]):
                        r["problems"].append("%s.%s is %s, the input says %s" % (var["name"], nm, show_lin(v.lin)[:60],
                                                                              show_lin(want[nm])[:60]))
        if len(r["problems"]) > 5:
            break
    r["problems"] = list(dict.fromkeys(r["problems"]))[:5]
    return r


def check_fold(S, F):
    b = F.bodies.get(FOLD)
    r = {"rule": "fold", "what": "size fold of TcpOptions::try_from_elements", "sp": b["span"] if b else "",
         "problems": [], "paths": 0, "sizes": []}
    if b is None:
        r["problems"].append("closure not found")
        return r
    I = S.interp()
    I.opts["unroll"] = 4
    st = State()
    args = [I.materialize(st, b["locals"][i + 1][0], ("fo", i)) for i in range(b["arg_count"])]
    acc = None
    for a in args[1:]:
        if isinstance(a, VInt):
            acc = a
            break
    if acc is None:
        r["problems"].append("accumulator argument not found")
        return r
    fin, probs, I = S.run(b, st, args, I)
    r["problems"] += probs
    for (s1, rv) in fin:
        if not s1.feasible():
            continue
        r["paths"] += 1
        if not isinstance(rv, VInt):
            r["problems"].append("fold result not tracked")
            continue
        d = rv.lin - acc.lin
        if acc.lin.single_atom() in d.t:
            r["problems"].append("the amount added depends on the accumulator (%s)" % show_lin(d)[:100])
            continue
        if not s1.entails(d - 1):
            r["problems"].append("a path adds %s to the required size: an element is not counted" % show_lin(d)[:80])
            continue
        if d.is_const():
            r["sizes"].append(d.c)
    r["sizes"] = sorted(set(r["sizes"]))
    r["problems"] = list(dict.fromkeys(r["problems"]))[:5]
    return r


def run(F, inv, summaries):
    S = Sib(F, inv, summaries, depth=4, budget=300000)
    return [check_iter(S, F), check_fold(S, F)]
