"""TCP option rules (C13).

 * iter:  `TcpOptionsIterator::next` is interpreted on a fully symbolic option area R.  On every path:
            Some(Ok(elem))  - the remaining area is R advanced by k bytes with 1 <= k <= len(R) (elements tile a prefix,
                              every step makes progress);
            Some(Err(e))    - the remaining area is empty (the iterator stays exhausted) and the error states the real
                              kind (R[0]), size (R[1]) and remaining length (len(R));
            None            - R is empty or starts with the end-of-list kind, and the remaining area is empty.
 * fold:  the closure that `TcpOptions::try_from_elements` folds over the elements to obtain the required size adds a
          positive amount that does not depend on the accumulator on *every* path (otherwise the reported size is not the
          size of the whole list)."""
import os
import time
from .lin import Lin, show_lin
from .values import *
from .sib import Sib, OPTION, RESULT

IT = "<transport::tcp_options_iterator::TcpOptionsIterator as core::iter::Iterator>::next"
FOLD = "transport::tcp_options::TcpOptions::try_from_elements::{closure#0}"


def region_of(v):
    if isinstance(v, VAdt) and v.fields:
        for f in v.fields:
            if isinstance(f, VRegion):
                return f
    return None


def check_iter(S, F):
    b = F.bodies.get(IT)
    r = {"rule": "iter", "what": "TcpOptionsIterator::next", "sp": b["span"] if b else "", "problems": [], "paths": 0,
         "ok": 0, "err": 0, "none": 0}
    if b is None:
        r["problems"].append("function not found")
        return r
    I = S.interp()
    st = State()
    a0 = I.materialize(st, b["locals"][1][0], ("to", 0))
    self0 = I.load(st, ("place", a0.fid, a0.local, a0.projs))
    R = region_of(self0)
    if R is None:
        r["problems"].append("option area of the iterator is not tracked")
        return r
    fin, probs, I = S.run(b, st, [a0], I)
    r["problems"] += probs
    adt_e = F.adts.get("transport::tcp_option_read_error::TcpOptionReadError")
    for (s1, rv) in fin:
        if not s1.feasible():
            continue
        r["paths"] += 1
        now = region_of(I.load(s1, ("place", a0.fid, a0.local, a0.projs)))
        if now is None or now.origin != R.origin:
            r["problems"].append("remaining option area is not a sub-slice of the given one")
            continue
        if not (isinstance(rv, VAdt) and rv.path == OPTION and rv.variant is not None):
            r["problems"].append("result of next() not decided on a path")
            continue
        adv = now.off - R.off
        if rv.variant == 0:  # None
            r["none"] += 1
            b0 = I.read_byte(s1, R.origin, R.off)
            empty = s1.entails(-R.len)
            end = not empty and s1.entails(-b0.lin)
            if not (empty or end):
                r["problems"].append("next() returns None although the area is neither empty nor starts with END")
            if not s1.entails(-now.len):
                r["problems"].append("after None the remaining area is not empty (the iterator does not stay exhausted)")
            continue
        item = rv.fields[0]
        if not (isinstance(item, VAdt) and item.path == RESULT and item.variant is not None):
            r["problems"].append("item class not decided on a path")
            continue
        if item.variant == 0:
            r["ok"] += 1
            if not (s1.entails(adv - 1) and s1.entails(R.len - adv)):
                r["problems"].append("an element is yielded without consuming 1..=len bytes (advance %s of %s)" % (
                    show_lin(adv), show_lin(R.len)))
            d = now.off + now.len - R.off - R.len
            if not (s1.entails(d) and s1.entails(-d)):
                r["problems"].append("the remaining area does not end where the given one ends")
        else:
            r["err"] += 1
            if not s1.entails(-now.len):
                r["problems"].append("after an error the remaining area is not empty (the iterator does not stay exhausted)")
            e = item.fields[0]
            if isinstance(e, VAdt) and e.variant is not None and adt_e:
                var = adt_e["variants"][e.variant]
                fs = dict(zip([f["name"] for f in var["fields"]], e.fields))
                b0 = I.read_byte(s1, R.origin, R.off).lin
                b1 = I.read_byte(s1, R.origin, R.off + 1).lin
                want = {"option_id": b0, "0": b0, "size": b1, "actual_len": R.len}
                for nm, v in fs.items():
                    if nm in want and isinstance(v, VInt) and not S.int_eq(s1, v.lin, want[nm]):
                        r["problems"].append("%s.%s is %s, the input says %s" % (var["name"], nm, show_lin(v.lin)[:60],
                                                                              show_lin(want[nm])[:60]))
        if len(r["problems"]) > 5:
            break
    r["problems"] = list(dict.fromkeys(r["problems"]))[:5]
    return r


def check_fold(S, F):
    b = F.bodies.get(FOLD)
    r = {"rule": "fold", "what": "size fold of TcpOptions::try_from_elements", "sp": b["span"] if b else "",
         "problems": [], "paths": 0, "sizes": []}
    if b is None:
        r["problems"].append("closure not found")
        return r
    I = S.interp()
    I.opts["unroll"] = 4
    st = State()
    args = [I.materialize(st, b["locals"][i + 1][0], ("fo", i)) for i in range(b["arg_count"])]
    acc = None
    for a in args[1:]:
        if isinstance(a, VInt):
            acc = a
            break
    if acc is None:
        r["problems"].append("accumulator argument not found")
        return r
    fin, probs, I = S.run(b, st, args, I)
    r["problems"] += probs
    for (s1, rv) in fin:
        if not s1.feasible():
            continue
        r["paths"] += 1
        if not isinstance(rv, VInt):
            r["problems"].append("fold result not tracked")
            continue
        d = rv.lin - acc.lin
        if acc.lin.single_atom() in d.t:
            r["problems"].append("the amount added depends on the accumulator (%s)" % show_lin(d)[:100])
            continue
        if not s1.entails(d - 1):
            r["problems"].append("a path adds %s to the required size: an element is not counted" % show_lin(d)[:80])
            continue
        if d.is_const():
            r["sizes"].append(d.c)
    r["sizes"] = sorted(set(r["sizes"]))
    r["problems"] = list(dict.fromkeys(r["problems"]))[:5]
    return r


def run(F, inv, summaries):
    S = Sib(F, inv, summaries, depth=4, budget=300000)
    return [check_iter(S, F), check_fold(S, F)]


# ------------------------------------------------------------------------------------------------------------------
# NDP option iterator step (C17 clause): RFC 4861 4.6 - an option is `type, length (units of 8 bytes), data`; length 0 is
# invalid; options tile the option area.

NDP_IT = "<transport::icmpv6::ndp_options_iterator::NdpOptionsIterator as core::iter::Iterator>::next"


def check_ndp_iter(S, F):
    b = F.bodies.get(NDP_IT)
    r = {"rule": "ndp-iter", "what": "NdpOptionsIterator::next", "sp": b["span"] if b else "", "problems": [], "paths": 0,
         "ok": 0, "err": 0, "none": 0}
    if b is None:
        r["problems"].append("function not found")
        return r
    I = S.interp()
    st = State()
    a0 = I.materialize(st, b["locals"][1][0], ("nd", 0))
    R = region_of(I.load(st, ("place", a0.fid, a0.local, a0.projs)))
    if R is None:
        r["problems"].append("option area of the iterator is not tracked")
        return r
    fin, probs, I = S.run(b, st, [a0], I)
    r["problems"] += probs
    for (s1, rv) in fin:
        if not s1.feasible():
            continue
        r["paths"] += 1
        now = region_of(I.load(s1, ("place", a0.fid, a0.local, a0.projs)))
        if now is None:
            r["problems"].append("remaining option area not tracked")
            continue
        if not (isinstance(rv, VAdt) and rv.path == OPTION and rv.variant is not None):
            r["problems"].append("result of next() not decided on a path")
            continue
        if rv.variant == 0:
            r["none"] += 1
            if not s1.entails(-R.len):
                r["problems"].append("next() returns None although the option area is not empty")
            continue
        item = rv.fields[0]
        if not (isinstance(item, VAdt) and item.path == RESULT and item.variant is not None):
            r["problems"].append("item class not decided on a path")
            continue
        b0 = I.read_byte(s1, R.origin, R.off).lin
        b1 = I.read_byte(s1, R.origin, R.off + 1).lin
        want = b1.scale(8)
        if item.variant == 0:
            r["ok"] += 1
            if now.origin != R.origin:
                r["problems"].append("remaining area is not a sub-slice of the given one")
                continue
            adv = now.off - R.off
            if not S.int_eq(s1, adv, want):
                r["problems"].append("an option advances the iterator by %s bytes, its length field says %s" % (
                    show_lin(adv)[:60], show_lin(want)[:40]))
            if not (s1.entails(adv - 8) and s1.entails(R.len - adv)):
                r["problems"].append("an option is yielded without consuming 8..=len bytes")
            d = now.off + now.len - R.off - R.len
            if not (s1.entails(d) and s1.entails(-d)):
                r["problems"].append("the remaining area does not end where the given one ends")
            # the option handed out is exactly the consumed prefix
            reg = None
            for (_, g) in I.walk_regions(item.fields[0]):
                reg = g
                break
            if reg is not None and reg.origin == R.origin:
                if not (S.int_eq(s1, reg.off, R.off) and S.int_eq(s1, reg.len, adv)):
                    r["problems"].append("the option slice is [%s,+%s), the consumed prefix [%s,+%s) (gap or overlap)" % (
                        show_lin(reg.off), show_lin(reg.len), show_lin(R.off), show_lin(adv)))
        else:
            r["err"] += 1
            if not s1.entails(-now.len):
                r["problems"].append("after an error the remaining area is not empty")
            e = item.fields[0]
            adt = F.adts.get(e.path) if isinstance(e, VAdt) else None
            if adt and e.variant is not None:
                var = adt["variants"][e.variant]
                fs = dict(zip([f["name"] for f in var["fields"]], e.fields or ()))
                if var["name"] == "ZeroLength" and not (s1.entails(b1) and s1.entails(-b1)):
                    r["problems"].append("ZeroLength is reported although the length field is not entailed to be 0")
                if var["name"] == "UnexpectedEndOfSlice":
                    ex, ac = fs.get("expected_size"), fs.get("actual_size")
                    if isinstance(ex, VInt) and not S.int_eq(s1, ex.lin, want) and not s1.entails(Lin.const(1) - R.len):
                        r["problems"].append("UnexpectedEndOfSlice.expected_size is %s, the length field says %s" % (
                            show_lin(ex.lin)[:60], show_lin(want)[:40]))
                    if isinstance(ac, VInt) and not S.int_eq(s1, ac.lin, R.len):
                        r["problems"].append("UnexpectedEndOfSlice.actual_size is not the remaining length")
                oid = fs.get("option_id")
                if isinstance(oid, VAdt) and oid.fields and isinstance(oid.fields[0], VInt) and \
                        s1.entails(R.len - 2) and not S.int_eq(s1, oid.fields[0].lin, b0):
                    r["problems"].append("%s.option_id is not the type byte of the input" % var["name"])
        if len(r["problems"]) > 5:
            break
    # a zero length field must be rejected: no Ok path may allow b1 == 0
    r["problems"] = list(dict.fromkeys(r["problems"]))[:5]
    return r


# ------------------------------------------------------------------------------------------------------------------
# Ethernet/IPv4 view of ARP (C17 clause): the fixed-size view holds *whole* addresses - on every Ok path of
# ArpPacket::try_eth_ipv4 the packet's hardware / protocol address sizes equal the lengths of the view's address arrays
# (taken from the view's type, no external table), so nothing is truncated and nothing uninitialised is read.

ARP_VIEW = "net::arp_packet::ArpPacket::try_eth_ipv4"
ARP_FIELDS = {"sender_mac": "hw_addr_size", "target_mac": "hw_addr_size", "sender_ipv4": "proto_addr_size",
              "target_ipv4": "proto_addr_size"}


def check_arp_view(S, F):
    b = F.bodies.get(ARP_VIEW)
    r = {"rule": "arp-view", "what": "ArpPacket::try_eth_ipv4", "sp": b["span"] if b else "", "problems": [], "paths": 0}
    if b is None:
        r["problems"].append("function not found")
        return r
    I = S.interp()
    st = State()
    a0 = I.materialize(st, b["locals"][1][0], ("ar", 0))
    me = I.load(st, ("place", a0.fid, a0.local, a0.projs))
    padt = F.adts.get(me.path)
    pf = dict(zip([f["name"] for f in padt["variants"][0]["fields"]], me.fields))
    fin, probs, I = S.run(b, st, [a0], I)
    r["problems"] += probs
    for (s1, rv) in fin:
        if not s1.feasible() or S.result_variant(I, s1, rv) != "Ok":
            continue
        r["paths"] += 1
        view = rv.fields[0]
        vadt = F.adts.get(view.path) if isinstance(view, VAdt) else None
        if vadt is None:
            r["problems"].append("view value not tracked")
            continue
        for f in vadt["variants"][0]["fields"]:
            if f["name"] not in ARP_FIELDS:
                continue
            t = I.rt(f["ty"])
            if not (isinstance(t, dict) and t["k"] == "array" and t["len"] is not None):
                continue
            size = pf.get(ARP_FIELDS[f["name"]])
            if not isinstance(size, VInt) or not S.int_eq(s1, size.lin, Lin.const(t["len"])):
                r["problems"].append("the view is built although %s is not entailed to be %d (the length of %s): an "
                                     "address would be truncated or read beyond its initialised part" % (
                                         ARP_FIELDS[f["name"]], t["len"], f["name"]))
    if r["paths"] == 0:
        r["problems"].append("no Ok path analysed")
    r["problems"] = list(dict.fromkeys(r["problems"]))[:4]
    return r


def run_c17(F, inv, summaries):
    S = Sib(F, inv, summaries, depth=5, budget=400000)
    return [check_ndp_iter(S, F), check_arp_view(S, F)]
