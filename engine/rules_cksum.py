"""Checksum rules (C09): the 16-bit words a checksum routine sums are exactly the words of the serialised header
(checksum field excluded), the pseudo header of the protocol and the payload.

The accumulator of `checksum::Sum16BitWords` is interpreted as an exact linear expression over byte values (see the
checksum simulation models); at the fold it is compared, modulo 0xffff, with the expression built from the bytes that
`to_bytes()` emits for the same symbolic header in the same state, the pseudo header words prescribed by RFC 768 / 793 /
8200 / 4443 (spec table below) and the payload term.  The fold itself must be the no-zero variant exactly for UDP."""
import os
import time
import multiprocessing as mp
from .lin import Lin, show_lin, lin_from_key, reg_atom
from .values import *
from .sib import Sib, RESULT

M16 = 65535

# function -> how the expected sum is assembled
#   header: (type path providing to_bytes, how to obtain the value: 'self' | ('wrap', struct path, field index of self,
#            zero-filled other fields)), skip: byte positions of the checksum field, pseudo: None | 'v4' | 'v6',
#   proto: protocol number, len: 'field:<name>' | 'header+payload', args: indexes of (source, destination, payload)
SPEC = [
    {"fn": "net::ipv4_header::Ipv4Header::calc_header_checksum", "header": "net::ipv4_header::Ipv4Header", "value": "self",
     "skip": (10, 11), "pseudo": None, "payload": None, "fold": "oc"},
    {"fn": "transport::udp_header::UdpHeader::calc_checksum_ipv4_raw", "header": "transport::udp_header::UdpHeader",
     "value": "self", "skip": (6, 7), "pseudo": "v4", "proto": 17, "len": ("field", 2), "src": 1, "dst": 2, "payload": 3,
     "fold": "ocnz"},
    {"fn": "transport::udp_header::UdpHeader::calc_checksum_ipv6_raw", "header": "transport::udp_header::UdpHeader",
     "value": "self", "skip": (6, 7), "pseudo": "v6", "proto": 17, "len": ("field", 2), "src": 1, "dst": 2, "payload": 3,
     "fold": "ocnz"},
    {"fn": "transport::tcp_header::TcpHeader::calc_checksum_ipv4_raw", "header": "transport::tcp_header::TcpHeader",
     "value": "self", "skip": (16, 17), "pseudo": "v4", "proto": 6, "len": ("hdr+payload",), "src": 1, "dst": 2,
     "payload": 3, "fold": "oc"},
    {"fn": "transport::tcp_header::TcpHeader::calc_checksum_ipv6_raw", "header": "transport::tcp_header::TcpHeader",
     "value": "self", "skip": (16, 17), "pseudo": "v6", "proto": 6, "len": ("hdr+payload",), "src": 1, "dst": 2,
     "payload": 3, "fold": "oc"},
    {"fn": "transport::icmpv4_type::Icmpv4Type::calc_checksum", "header": "transport::icmpv4_header::Icmpv4Header",
     "value": ("wrap", "transport::icmpv4_header::Icmpv4Header"), "skip": (2, 3), "pseudo": None, "payload": 1,
     "fold": "oc"},
    {"fn": "transport::icmpv6_type::Icmpv6Type::calc_checksum", "header": "transport::icmpv6_header::Icmpv6Header",
     "value": ("wrap", "transport::icmpv6_header::Icmpv6Header"), "skip": (2, 3), "pseudo": "v6", "proto": 58,
     "len": ("hdr+payload",), "src": 1, "dst": 2, "payload": 3, "fold": "oc"},
    {"fn": "transport::igmp_header::IgmpHeader::calc_checksum", "header": "transport::igmp_header::IgmpHeader",
     "value": "self", "skip": (2, 3), "pseudo": None, "payload": 1, "fold": "oc"},
]


# slice based routines: the header is the first field of `self` (a byte region); the checksum field sits at `skip`
SLICE_SPEC = [
    {"fn": "transport::tcp_slice::TcpSlice::calc_checksum_ipv4", "skip": 16, "pseudo": "v4", "proto": 6, "src": 1, "dst": 2,
     "payload": None, "fold": "oc"},
    {"fn": "transport::tcp_slice::TcpSlice::calc_checksum_ipv6", "skip": 16, "pseudo": "v6", "proto": 6, "src": 1, "dst": 2,
     "payload": None, "fold": "oc"},
    {"fn": "transport::tcp_header_slice::TcpHeaderSlice::calc_checksum_ipv4_raw", "skip": 16, "pseudo": "v4", "proto": 6,
     "src": 1, "dst": 2, "payload": 3, "fold": "oc"},
    {"fn": "transport::tcp_header_slice::TcpHeaderSlice::calc_checksum_ipv6_raw", "skip": 16, "pseudo": "v6", "proto": 6,
     "src": 1, "dst": 2, "payload": 3, "fold": "oc"},
    {"fn": "transport::icmpv6_slice::Icmpv6Slice::is_checksum_valid", "skip": None, "pseudo": "v6", "proto": 58, "src": 1,
     "dst": 2, "payload": None, "fold": "oc", "validate": True},
]


def slice_of(selfv):
    for f in (selfv.fields or ()):
        if isinstance(f, VRegion):
            return f
    return None


def ssum(origin, off, ln):
    return Lin.atom(reg_atom(("slicesum", origin, off.key(), ln.key()), 0, None))


def check_slice_fn(S, F, sp):
    fn = F.bodies.get(sp["fn"])
    r = {"rule": "cksum-slice" if not sp.get("validate") else "cksum-validate", "fn": sp["fn"],
         "sp": fn["span"] if fn else "", "problems": [], "paths": 0}
    if fn is None:
        r["problems"].append("function not found")
        return r
    I = S.interp()
    I.opts["cksum_sim"] = True
    st = State()
    try:
        args = [I.materialize(st, fn["locals"][i + 1][0], ("ck", i)) for i in range(fn["arg_count"])]
    except Infeasible:
        r["problems"].append("arguments cannot be materialised")
        return r
    a0 = args[0]
    fin, probs, I = S.run(fn, st, args, I)
    r["problems"] += probs[:1]
    for (s1, rv) in fin:
        if not s1.feasible() or S.result_variant(I, s1, rv) != "Ok":
            continue
        if s1.notes.get("cksum_bad"):
            r["problems"].append(s1.notes["cksum_bad"])
            continue
        folds = s1.notes.get("cksum", ())
        if len(folds) != 1:
            r["problems"].append("%d folds on a path that returns a result" % len(folds))
            continue
        kind, acc, _ = folds[0]
        r["paths"] += 1
        if kind != sp["fold"]:
            r["problems"].append("fold is %s, expected %s" % (kind, sp["fold"]))
        selfv = I.load(s1, ("place", a0.fid, a0.local, a0.projs)) if isinstance(a0, VRef) else a0
        R = slice_of(selfv)
        if R is None:
            r["problems"].append("slice of self is not tracked")
            continue
        if sp["skip"] is None:
            exp = ssum(R.origin, R.off, R.len)
        else:
            k = sp["skip"]
            exp = words([I.read_byte(s1, R.origin, R.off + i).lin for i in range(k)])
            exp = exp + ssum(R.origin, R.off + (k + 2), R.len - (k + 2))
        total = R.len
        if sp.get("payload") is not None:
            pv = args[sp["payload"]]
            exp = exp + ssum(pv.origin, pv.off, pv.len)
            total = total + pv.len
        for ai in (sp["src"], sp["dst"]):
            exp = exp + words([e.lin for e in args[ai].elems])
        exp = exp + be16(Lin.const(sp["proto"])) + be16(total)
        d = canon(acc - exp)
        if d.t or d.c:
            r["problems"].append("summed words differ from pseudo header + message bytes (mod 0xffff) by %s" % show_lin(d)[:200])
        if sp.get("validate"):
            # RFC 1071: the complete sum (checksum field included) folds to 0xffff, i.e. its complement is 0
            ok = False
            if isinstance(rv, VBool) and rv.f[0] == "eq":
                a = rv.f[1].single_atom()
                ok = a is not None and isinstance(a, tuple) and a[0] == "ckfold" and rv.f[1].c == 0
            if not ok:
                r["problems"].append("validation does not test `complement of the complete sum == 0` (result: %s)"
                                     % (I.show_formula(rv.f)[:120] if isinstance(rv, VBool) else repr(rv)[:80]))
    r["problems"] = list(dict.fromkeys(r["problems"]))[:5]
    return r


def canon(l):
    """normal form modulo 0xffff: byte decompositions are folded back (and(x,255) = x - 256*(x >> 8)), coefficients
    reduced"""
    for _ in range(12):
        changed = False
        t = dict(l.t)
        c = l.c
        for a, k in list(l.t.items()):
            if isinstance(a, tuple) and a and a[0] == "and" and len(a) == 3 and a[2] == 255:
                x = lin_from_key(a[1])
                q = shr8(x)
                if q is None:
                    continue
                del t[a]
                for xa, xk in x.t.items():
                    t[xa] = t.get(xa, 0) + k * xk
                c += k * x.c
                for qa, qk in q.t.items():
                    t[qa] = t.get(qa, 0) - 256 * k * qk
                c -= 256 * k * q.c
                changed = True
        l = Lin({a: v for a, v in t.items() if v}, c)
        if not changed:
            break
    return Lin({a: v % M16 for a, v in l.t.items() if v % M16}, l.c % M16)


def shr8(x):
    """x >> 8 as the interpreter names it (None if x is not a single atom / shifted atom)"""
    a = x.single_atom()
    if a is None:
        return Lin.atom(reg_atom(("shr", x.key(), 8), 0, None))
    if isinstance(a, tuple) and a and a[0] == "shr" and isinstance(a[2], int):
        return Lin.atom(reg_atom(("shr", a[1], a[2] + 8), 0, None))
    return Lin.atom(reg_atom(("shr", x.key(), 8), 0, None))


def words(bytes_, skip=()):
    r = Lin.const(0)
    for i, b in enumerate(bytes_):
        if i in skip:
            continue
        r = r + b.scale(256 if i % 2 else 1)
    return r


def be16(q):
    """contribution of the big-endian 16-bit quantity q (hi byte at an even position): hi + 256*lo = 256*q mod 0xffff"""
    return q.scale(256)


def check_fn(S, F, sp):
    fn = F.bodies.get(sp["fn"])
    r = {"rule": "cksum", "fn": sp["fn"], "sp": fn["span"] if fn else "", "problems": [], "paths": 0}
    if fn is None:
        r["problems"].append("function not found")
        return r
    enc = F.bodies.get(sp["header"] + "::to_bytes")
    if enc is None:
        r["problems"].append("to_bytes of %s not found" % sp["header"])
        return r
    I = S.interp()
    I.opts["cksum_sim"] = True
    st = State()
    args = []
    try:
        for i in range(fn["arg_count"]):
            args.append(I.materialize(st, fn["locals"][i + 1][0], ("ck", i)))
    except Infeasible:
        r["problems"].append("arguments cannot be materialised")
        return r
    a0 = args[0]
    for (s0, desc) in S.split_enums(I, st, a0):
        I0 = S.interp()
        I0.opts["cksum_sim"] = True
        fin, probs, I0 = S.run(fn, s0, args, I0)
        r["problems"] += probs[:1]
        for (s1, rv) in fin:
            if not s1.feasible():
                continue
            if S.result_variant(I0, s1, rv) != "Ok":
                continue
            pre = (desc + ": ") if desc else ""
            if s1.notes.get("cksum_bad"):
                r["problems"].append(pre + s1.notes["cksum_bad"])
                continue
            folds = s1.notes.get("cksum", ())
            if len(folds) != 1:
                r["problems"].append("%s%d folds on a path that returns a checksum" % (pre, len(folds)))
                continue
            kind, acc, _ = folds[0]
            r["paths"] += 1
            if kind != sp["fold"]:
                r["problems"].append("%sfold is %s, expected %s (a computed UDP checksum of 0 is sent as 0xffff; no other "
                                     "protocol does that)" % (pre, kind, sp["fold"]))
            # header value
            selfv = I0.load(s1, ("place", a0.fid, a0.local, a0.projs)) if isinstance(a0, VRef) else a0
            if sp["value"] == "self":
                href = a0
            else:
                hpath = sp["value"][1]
                adt = F.adts[hpath]
                fields = []
                for f in adt["variants"][0]["fields"]:
                    ft = I0.rt(f["ty"])
                    if isinstance(ft, dict) and ft.get("k") == "adt" and ft["path"] == selfv.path:
                        fields.append(selfv)
                    else:
                        fields.append(VInt(Lin.const(0)))
                oid = ("h", ("ck", "hdr"))
                s1.heap[oid] = VAdt(hpath, 0, tuple(fields), None, None)
                href = VRef(0, oid, (), False)
            s2 = s1.fork()
            fin2, probs2, I2 = S.run(enc, s2, [href])
            for (s3, bv) in fin2:
                if not s3.feasible():
                    continue
                data = bv.elems if isinstance(bv, VArray) else (bv.data if isinstance(bv, VVec) else None)
                n = Lin.const(bv.n) if isinstance(bv, VArray) else (bv.len if isinstance(bv, VVec) else None)
                if data is None or n is None or not n.is_const():
                    # symbolic header length: enumerate it (options)
                    if data is not None and n is not None:
                        rg = I2.int_range(s3, n, cap=64)
                    else:
                        rg = None
                    if rg is None:
                        r["problems"].append(pre + "serialised header bytes are not tracked")
                        continue
                    cases = []
                    for k in range(rg[0], rg[1] + 1):
                        s4 = s3.fork_facts()
                        try:
                            s4.add_ge0(n - k)
                            s4.add_ge0(Lin.const(k) - n)
                            if s4.feasible():
                                cases.append((s4, k))
                        except Infeasible:
                            pass
                else:
                    cases = [(s3, n.c)]
                for (s4, k) in cases:
                    bs = []
                    bad = False
                    for i in range(k):
                        x = data[i]
                        if not isinstance(x, VInt):
                            bad = True
                            break
                        bs.append(x.lin)
                    if bad:
                        r["problems"].append(pre + "serialised header byte is not tracked")
                        continue
                    exp = words(bs, sp["skip"])
                    pay = None
                    if sp.get("payload") is not None:
                        pv = args[sp["payload"]]
                        if isinstance(pv, VRegion):
                            pay = pv
                            exp = exp + Lin.atom(reg_atom(("slicesum", pv.origin, pv.off.key(), pv.len.key()), 0, None))
                    if sp.get("pseudo"):
                        for ai in (sp["src"], sp["dst"]):
                            av = args[ai]
                            if not (isinstance(av, VArray) and av.elems is not None):
                                r["problems"].append(pre + "address argument is not tracked")
                                continue
                            exp = exp + words([e.lin for e in av.elems])
                        exp = exp + be16(Lin.const(sp["proto"]))
                        if sp["len"][0] == "field":
                            lv = selfv.fields[sp["len"][1]]
                            exp = exp + be16(lv.lin)
                        else:
                            exp = exp + be16(n + (pay.len if pay is not None else Lin.const(0)))
                    d = canon(acc - exp)
                    # the length word of a 32-bit pseudo header length: 2^16 = 1 mod 0xffff, already reduced
                    if d.t or d.c:
                        # facts may still close the gap (equalities between atoms)
                        dd = acc - exp
                        if not (s4.entails(dd) and s4.entails(-dd)):
                            r["problems"].append("%ssummed words differ from pseudo header + to_bytes() + payload "
                                                 "(mod 0xffff) by %s" % (pre, show_lin(d)[:200]))
            if len(r["problems"]) > 4:
                break
        if len(r["problems"]) > 4:
            break
    r["problems"] = list(dict.fromkeys(r["problems"]))[:5]
    return r


_F = None
_INV = None
_SUMM = None


def _work(sp):
    S = Sib(_F, _INV, _SUMM)
    t0 = time.time()
    try:
        rec = check_fn(S, _F, sp) if "header" in sp else check_slice_fn(S, _F, sp)
        err = None
    except Exception:
        import traceback
        rec, err = None, traceback.format_exc()
    return {"fn": sp["fn"], "records": [rec] if rec else [], "err": err, "time": time.time() - t0}


def run(F, inv, summaries, jobs=None, only=None):
    global _F, _INV, _SUMM
    _F, _INV, _SUMM = F, inv, summaries
    specs = [s for s in SPEC + SLICE_SPEC if not only or only in s["fn"]]
    jobs = jobs or min(16, os.cpu_count() or 4)
    ctx = mp.get_context("fork")
    with ctx.Pool(jobs) as pool:
        res = pool.map(_work, specs, chunksize=1)
    return res
