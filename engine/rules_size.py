"""PacketBuilder size rule (C10): on every path on which `final_write_with_net` returns Ok the number of bytes handed
to the writer equals `final_size(builder, payload.len())`.

`final_write_with_net` is interpreted once per builder typestate instantiation (start state = that instantiation's
inferred invariant) with every serialiser replaced by its length - `X::to_bytes()` by `X::header_len()` (lemma: C08 len),
`Ipv{4,6}Extensions::write_internal` by `header_len()` on Ok (lemma: C12 announce), `write_all(slice)` by `len(slice)`,
checksum routines by the abstract accumulator - and `final_size` is then interpreted on the original builder value in
each Ok final state."""
import os
import time
import multiprocessing as mp
from .lin import Lin, show_lin
from .values import *
from .sib import Sib

FW = "packet_builder::final_write_with_net"
FS = "packet_builder::final_size"
# header_len of the ICMP message types: a 27-way / 13-way match that every serialiser and size() repeat on the same,
# never modified, icmp_type value - an uninterpreted function of that value keeps the path count flat
UF = frozenset(("transport::icmpv4_type::Icmpv4Type::header_len", "transport::icmpv6_type::Icmpv6Type::header_len"))


def check_inst(nm):
    F = _F
    S = Sib(F, _INV, _SUMM, depth=3, budget=int(os.environ.get("SIZE_BUDGET", "600000")))
    t0 = time.time()
    r = {"rule": "size", "what": nm, "sp": F.bodies[FS]["span"], "problems": [], "paths": 0}
    try:
        fw, fs = F.bodies[FW], F.bodies[FS]
        I = S.interp()
        I.opts.update({"io_sim": True, "io_ok_only": True, "len_sim": True, "cksum_sim": True, "uf_calls": UF})
        st = State()
        b = I.materialize(st, fw["locals"][1][0], ("sz", 0))
        I.assume_invariant(st, nm, b.key)
        w = I.materialize(st, fw["locals"][2][0], ("sz", 1))
        p = I.materialize(st, fw["locals"][3][0], ("sz", 2))
        st.notes["wlen"] = Lin.const(0)
        fin, probs, I = S.run(fw, st, [b, w, p], I)
        r["problems"] += probs
        oid = ("h", ("sz", "builder"))
        for (s1, rv) in fin:
            if not s1.feasible() or S.result_variant(I, s1, rv) != "Ok":
                continue
            if s1.notes.get("wlen_bad"):
                r["problems"].append("a write of untracked length")
                continue
            n = s1.notes.get("wlen", Lin.const(0))
            s2 = s1.fork()
            s2.heap[oid] = b
            I2 = S.interp()
            I2.opts.update({"len_sim": True, "uf_calls": UF})
            fin2, probs2, I2 = S.run(fs, s2, [VRef(0, oid, (), False), VInt(p.len)], I2)
            for (s3, sv) in fin2:
                if not s3.feasible():
                    continue
                r["paths"] += 1
                if not (isinstance(sv, VInt) and S.int_eq(s3, sv.lin, n)):
                    r["problems"].append("size() = %s but a successful write emits %s bytes" % (
                        show_lin(sv.lin)[:120] if isinstance(sv, VInt) else "?", show_lin(n)[:120]))
            if len(r["problems"]) > 3:
                break
    except Exception:
        import traceback
        r["problems"].append("crash: " + " | ".join(traceback.format_exc().strip().splitlines()[-2:]))
    r["problems"] = list(dict.fromkeys(r["problems"]))[:4]
    r["time"] = time.time() - t0
    return r


_F = None
_INV = None
_SUMM = None


def run(F, inv, summaries, only=None):
    global _F, _INV, _SUMM
    _F, _INV, _SUMM = F, inv, summaries
    from .absint import Interp
    from .models import M
    I = Interp(F, M, inv)
    names = sorted(n for n in I.typestate_flows().get((FW, 0), ()) if n)
    if only:
        names = [n for n in names if only in n]
    ctx = mp.get_context("fork")
    with ctx.Pool(min(6, len(names) or 1)) as pool:
        return pool.map(check_inst, names, chunksize=1)


# ------------------------------------------------------------------------------------------------------------------
# entry points: `write`, `write_to_vec` and `write_to_slice` of a final builder step differ only in the writer - they hand
# the *same builder state* and payload to `final_write_with_net` (which the size rule and C08/C09/C12 then cover).

ENTRY = ("write", "write_to_vec", "write_to_slice")


def check_entry(nm):
    from .rules_rt import merge_states
    F = _F
    S = Sib(F, _INV, _SUMM, depth=3, budget=300000)
    t0 = time.time()
    r = {"rule": "entry", "what": nm, "sp": "", "problems": [], "paths": 0}
    try:
        # PacketBuilderStep<X> -> method prefix packet_builder::PacketBuilderStep::<X>::
        inner = nm[nm.index("<") + 1:-1]
        pre = "packet_builder::PacketBuilderStep::<%s>::" % inner
        fns = [F.bodies.get(pre + e) for e in ENTRY]
        if any(f is None for f in fns):
            r["problems"].append("entry points not found for %s" % nm)
            return r
        r["sp"] = fns[0]["span"]
        I0 = S.interp()
        st0 = State()
        b = I0.materialize(st0, fns[0]["locals"][1][0], ("en", 0))
        I0.assume_invariant(st0, nm, b.key)
        shared = {}
        runs = []
        for f in fns:
            I = S.interp()
            I.opts.update({"stop_calls": frozenset((FW,)), "len_sim": True})
            st = st0.fork()
            args = [b]
            for i in range(1, f["arg_count"]):
                ty = f["locals"][i + 1][0]
                ts = I.tstr(ty)
                # the writer / buffer (argument 1) is private to the entry point; later arguments (ip number,
                # payload) are the same values for all three
                if i >= 2:
                    if (i, ts) not in shared:
                        shared[(i, ts)] = I0.materialize(st0, ty, ("en", i))
                        st = st0.fork()
                    args.append(shared[(i, ts)])
                else:
                    args.append(I.materialize(st, ty, ("enw", f["path"], i)))
            fin, probs, I = S.run(f, st, args, I)
            r["problems"] += probs
            got = []
            for (s1, rv) in fin:
                sp_ = [x for x in (s1.notes.get("stopped") or ()) if x[0] == FW]
                if s1.feasible() and sp_:
                    got.append((s1, sp_[0][1], I))
            if not got:
                r["problems"].append("%s never reaches final_write_with_net" % f["path"].rsplit("::", 1)[1])
            runs.append(got)
        base = runs[0]
        for k in (1, 2):
            for (sa, aa, Ia) in base:
                for (sb, ab, Ib) in runs[k]:
                    s = merge_states(sa, sb)
                    if s is None:
                        continue
                    r["paths"] += 1
                    for d in S.eq(Ib, s, aa[0], ab[0], "builder"):
                        r["problems"].append("%s and %s hand different builder states to final_write_with_net: %s" % (
                            ENTRY[0], ENTRY[k], d))
                    for d in S.eq(Ib, s, aa[2], ab[2], "payload"):
                        r["problems"].append("%s and %s hand different payloads to final_write_with_net: %s" % (
                            ENTRY[0], ENTRY[k], d))
                    if len(r["problems"]) > 4:
                        break
                if len(r["problems"]) > 4:
                    break
    except Exception:
        import traceback
        r["problems"].append("crash: " + " | ".join(traceback.format_exc().strip().splitlines()[-2:]))
    r["problems"] = list(dict.fromkeys(r["problems"]))[:4]
    r["time"] = time.time() - t0
    return r


def run_entry(F, inv, summaries, only=None):
    global _F, _INV, _SUMM
    _F, _INV, _SUMM = F, inv, summaries
    from .absint import Interp
    from .models import M
    I = Interp(F, M, inv)
    names = sorted(n for n in I.typestate_flows().get((FW, 0), ()) if n)
    if only:
        names = [n for n in names if only in n]
    ctx = mp.get_context("fork")
    with ctx.Pool(min(6, len(names) or 1)) as pool:
        return pool.map(check_entry, names, chunksize=1)
