"""PacketBuilder size rule (C10): on every path on which `final_write_with_net` returns Ok the number of bytes handed
to the writer equals `final_size(builder, payload.len())`.

`final_write_with_net` is interpreted once per builder typestate instantiation (start state = that instantiation's
inferred invariant) with every serialiser replaced by its length - `X::to_bytes()` by `X::header_len()` (lemma: C08 len),
`Ipv{4,6}Extensions::write_internal` by `header_len()` on Ok (lemma: C12 announce), `write_all(slice)` by `len(slice)`,
checksum routines by the abstract accumulator - and `final_size` is then interpreted on the original builder value in
each Ok final state."""
import os
import time
import multiprocessing as mp
from .lin import Lin, show_lin
from .values import *
from .sib import Sib

FW = "packet_builder::final_write_with_net"
FS = "packet_builder::final_size"
# header_len of the ICMP message types: a 27-way / 13-way match that every serialiser and size() repeat on the same,
# never modified, icmp_type value - an uninterpreted function of that value keeps the path count flat
UF = frozenset(("transport::icmpv4_type::Icmpv4Type::header_len", "transport::icmpv6_type::Icmpv6Type::header_len"))


def check_inst(nm):
    F = _F
    S = Sib(F, _INV, _SUMM, depth=3, budget=int(os.environ.get("SIZE_BUDGET", "600000")))
    t0 = time.time()
    r = {"rule": "size", "what": nm, "sp": F.bodies[FS]["span"], "problems": [], "paths": 0}
    try:
        fw, fs = F.bodies[FW], F.bodies[FS]
        I = S.interp()
        I.opts.update({"io_sim": True, "io_ok_only": True, "len_sim": True, "cksum_sim": True, "uf_calls": UF})
        st = State()
        b = I.materialize(st, fw["locals"][1][0], ("sz", 0))
        I.assume_invariant(st, nm, b.key)
        w = I.materialize(st, fw["locals"][2][0], ("sz", 1))
        p = I.materialize(st, fw["locals"][3][0], ("sz", 2))
        st.notes["wlen"] = Lin.const(0)
        fin, probs, I = S.run(fw, st, [b, w, p], I)
        r["problems"] += probs
        oid = ("h", ("sz", "builder"))
        for (s1, rv) in fin:
            if not s1.feasible() or S.result_variant(I, s1, rv) != "Ok":
                continue
            if s1.notes.get("wlen_bad"):
                r["problems"].append("a write of untracked length")
                continue
            n = s1.notes.get("wlen", Lin.const(0))
            s2 = s1.fork()
            s2.heap[oid] = b
            I2 = S.interp()
            I2.opts.update({"len_sim": True, "uf_calls": UF})
            fin2, probs2, I2 = S.run(fs, s2, [VRef(0, oid, (), False), VInt(p.len)], I2)
            for (s3, sv) in fin2:
                if not s3.feasible():
                    continue
                r["paths"] += 1
                if not (isinstance(sv, VInt) and S.int_eq(s3, sv.lin, n)):
                    r["problems"].append("size() = %s but a successful write emits %s bytes" % (
                        show_lin(sv.lin)[:120] if isinstance(sv, VInt) else "?", show_lin(n)[:120]))
            if len(r["problems"]) > 3:
                break
    except Exception:
        import traceback
        r["problems"].append("crash: " + " | ".join(traceback.format_exc().strip().splitlines()[-2:]))
    r["problems"] = list(dict.fromkeys(r["problems"]))[:4]
    r["time"] = time.time() - t0
    return r


_F = None
_INV = None
_SUMM = None


def run(F, inv, summaries, only=None):
    global _F, _INV, _SUMM
    _F, _INV, _SUMM = F, inv, summaries
    from .absint import Interp
    from .models import M
    I = Interp(F, M, inv)
    names = sorted(n for n in I.typestate_flows().get((FW, 0), ()) if n)
    if only:
        names = [n for n in names if only in n]
    ctx = mp.get_context("fork")
    with ctx.Pool(min(6, len(names) or 1)) as pool:
        return pool.map(check_inst, names, chunksize=1)
