"""Rules for rejecting setters (C14): ValueTooBigError-style errors.

For every function that can return one of the 'value does not fit' error types the interpreter is run
(inline depth 2) with three hooks:
 * construction of ValueTooBigError: the path condition must entail actual > max_allowed (operands are the guarded
   value and the guard's bound);
 * every Ok return: for each (actual, max_allowed) pair recorded in the function, the accepted value must be
   <= max_allowed (the guard rejects nothing less and accepts nothing more);
 * every Err return of a `&mut self` method: `*self` is unchanged.
"""
import os
import multiprocessing as mp
from .lin import Lin, show_lin
from .values import *
from .absint import Interp
from .models import M
from .loops import same_value

VTBE = "err::value_too_big_error::ValueTooBigError"
ERR_TYPES = (
    "err::value_too_big_error::ValueTooBigError",
    "err::arp::arp_new_error::ArpNewError", "err::arp::arp_hw_addr_error::ArpHwAddrError",
    "err::arp::arp_proto_addr_error::ArpProtoAddrError",
    "err::ip_auth::icv_len_error::IcvLenError", "err::ipv6_exts::ext_payload_len_error::ExtPayloadLenError",
    "err::ipv4::bad_options_len::BadOptionsLen", "transport::tcp_option_write_error::TcpOptionWriteError",
    "err::tcp::tcp_option_write_error::TcpOptionWriteError",
)


def mentions(F, t, names, depth=0):
    t = F.types[t] if isinstance(t, int) else t
    if isinstance(t, str) or depth > 6:
        return False
    k = t["k"]
    if k == "adt":
        if t["path"] in names:
            return True
        if any("t" in a and mentions(F, a["t"], names, depth + 1) for a in t["args"]):
            return True
        adt = F.adts.get(t["path"])
        if adt and adt["local"] and t["path"].startswith("err::") and depth < 3:
            return any(mentions(F, f["ty"], names, depth + 1) for v in adt["variants"] for f in v["fields"])
        return False
    if k in ("ref", "ptr"):
        return mentions(F, t["to"], names, depth + 1)
    if k == "tuple":
        return any(mentions(F, x, names, depth + 1) for x in t["of"])
    return False


def candidate_functions(F):
    names = set(ERR_TYPES)
    out = []
    for b in F.body_list:
        if b["kind"] == "Closure" or b.get("derived") or b.get("unsafe"):
            continue
        if b["path"].startswith(("err::", "<err::")):
            continue
        if mentions(F, b["locals"][0][0], names):
            out.append(b["path"])
    return out


class ValInterp(Interp):
    def __init__(self, F, inv):
        super().__init__(F, M, inv, max_depth=2, budget=200000)
        self.opts["bitor_oblig"] = False
        self.opts["cast_oblig"] = False
        self.records = []
        self.pairs = []  # (actual Lin, max Lin, site, sp) recorded at VTBE constructions anywhere in the call tree
        self.entry_self = None

    def analyze_root(self, body, assume_inv=True):
        self._body = body
        super().analyze_root(body, assume_inv)

    def new_frame(self, st, body, args, ret_k, callsite, tysubst=None):
        fr = super().new_frame(st, body, args, ret_k, callsite, tysubst)
        if len(st.frames) == 1:
            # snapshot of *self for `&mut self` methods
            if args and isinstance(args[0], VRef) and args[0].mut:
                st.notes["entry_self"] = (args[0], self.load(st, ("place", args[0].fid, args[0].local, args[0].projs)))
        return fr

    def exec_block(self, st, fr):
        if len(st.frames) == 1:
            st.trace = st.trace + (fr.block,)
        return super().exec_block(st, fr)

    def eval_rvalue(self, st, fr, rv, dest_ty):
        v = super().eval_rvalue(st, fr, rv, dest_ty)
        if rv["rv"] == "agg" and rv["kind"].get("agg") == "adt" and rv["kind"]["path"] == VTBE and isinstance(v, VAdt):
            self.check_vtbe(st, fr, v)
        return v

    def check_vtbe(self, st, fr, v):
        actual, mx, vt = v.fields[0], v.fields[1], v.fields[2]
        rec = {"rule": "vtbe", "fn": self._body["path"], "in": fr.body["path"], "sp": self.cur_sp, "problems": []}
        adt = self.F.adts.get("err::value_type::ValueType")
        if isinstance(vt, VAdt) and vt.variant is not None and adt:
            rec["value_type"] = adt["variants"][vt.variant]["name"]
        vtn = rec.get("value_type") or ""
        for ver, other in (("Ipv4", "Ipv6"), ("Ipv6", "Ipv4")):
            if ver in vtn:
                for name in self.known_ip_variants(st):
                    if other in name and ver not in name:
                        rec["problems"].append("value_type %s is reported on a path where the header set is %s" %
                                               (vtn, name))
        if isinstance(actual, VInt) and isinstance(mx, VInt):
            rec["actual"] = show_lin(actual.lin)
            rec["max_allowed"] = show_lin(mx.lin)
            d = actual.lin - mx.lin - 1
            if not st.entails(d):
                rec["problems"].append("path condition does not entail actual > max_allowed (actual=%s max_allowed=%s); "
                                       "facts: %s" % (show_lin(actual.lin), show_lin(mx.lin), self.show_facts(st, d)))
            if len(st.frames) == 1:
                # guard = last switch of the root frame on this path
                tr = st.trace
                gi = None
                for i in range(len(tr) - 1, -1, -1):
                    if fr.body["blocks"][tr[i]]["term"]["t"] == "switch":
                        gi = i
                        break
                is_cmp = False
                if gi is not None:
                    for s_ in reversed(fr.body["blocks"][tr[gi]]["stmts"]):
                        if s_["s"] == "assign":
                            is_cmp = s_["rvalue"]["rv"] == "bin" and s_["rvalue"]["op"] in ("Lt", "Le", "Gt", "Ge")
                            break
                if gi is not None and gi + 1 < len(tr) and is_cmp:
                    self.pairs.append((actual.lin, mx.lin, self.cur_sp, rec.get("value_type"), tr[:gi + 1], tr[gi + 1]))
        self.records.append(rec)

    def known_ip_variants(self, st):
        """names of the Ipv4/Ipv6 variants that the path has selected for enum values reachable from the arguments"""
        out = []
        vals = list(st.heap.values())
        if st.frames:
            vals += list(st.frames[0].locals.values())
        for v in vals:
            if not isinstance(v, VAdt):
                continue
            adt = self.F.adts.get(v.path)
            if not adt or adt["kind"] != "enum":
                continue
            names = [x["name"] for x in adt["variants"]]
            if not (any("Ipv4" in n for n in names) and any("Ipv6" in n for n in names)):
                continue
            if v.variant is not None:
                out.append(names[v.variant])
            elif v.key is not None:
                try:
                    da = self.discr_atom(v)
                    for i, var in enumerate(adt["variants"]):
                        if st.holds(("eq", Lin.atom(da) - var["discr"])):
                            out.append(names[i])
                except Exception:
                    pass
        return out

    def exec_return(self, st, fr):
        if len(st.frames) == 1:
            rv = fr.locals.get(0)
            self.check_final(st, fr, rv)
        return super().exec_return(st, fr)

    def check_final(self, st, fr, rv):
        is_ok = isinstance(rv, VAdt) and rv.path == "core::result::Result" and rv.variant == 0
        is_err = isinstance(rv, VAdt) and rv.path == "core::result::Result" and rv.variant == 1
        if is_err and "entry_self" in st.notes:
            ref, old = st.notes["entry_self"]
            new = self.load(st, ("place", ref.fid, ref.local, ref.projs))
            rec = {"rule": "unchanged", "fn": self._body["path"], "sp": fr.body["span"], "problems": []}
            if not same_value(old, new):
                rec["problems"].append("`*self` differs from its value at entry on a path returning Err "
                                       "(old %s, new %s)" % (repr(old)[:160], repr(new)[:160]))
            self.records.append(rec)
        if is_ok:
            self.ok_states = getattr(self, "ok_states", [])
            s2 = st.fork_facts()
            s2.trace = st.trace
            self.ok_states.append(s2)


_F = None
_INV = None


def _work(paths):
    out = []
    for p in paths:
        b = _F.bodies[p]
        I = ValInterp(_F, _INV)
        err = None
        try:
            I.analyze_root(b)
        except Exception:
            import traceback
            err = traceback.format_exc()
        recs = list(I.records)
        # accepted values never exceed the maximum named in the error (checked on every Ok return)
        seen = set()
        for (a, m, sp, vt, prefix, nxt) in I.pairs:
            k = (a.key(), m.key(), prefix)
            if k in seen:
                continue
            seen.add(k)
            sib = [s_ok for s_ok in getattr(I, "ok_states", [])
                   if s_ok.trace[:len(prefix)] == prefix and len(s_ok.trace) > len(prefix) and s_ok.trace[len(prefix)] != nxt]
            rec = {"rule": "accept", "fn": p, "sp": sp, "actual": show_lin(a), "max_allowed": show_lin(m),
                   "value_type": vt, "problems": [], "ok_paths": len(sib)}
            for s_ok in sib:
                if not s_ok.entails(m - a):
                    rec["problems"].append("an Ok return does not entail %s <= %s: a value above the stated maximum "
                                           "is accepted" % (show_lin(a), show_lin(m)))
                    break
            recs.append(rec)
        aborted = any(e[0] == "abort" for e in I.sink.events)
        out.append({"fn": p, "records": recs, "err": err, "aborted": aborted})
    return out


def run(F, inv, jobs=None):
    global _F, _INV
    _F = F
    _INV = inv
    fns = candidate_functions(F)
    jobs = jobs or min(16, os.cpu_count() or 4)
    chunks = [fns[i::jobs * 4] for i in range(jobs * 4)]
    chunks = [c for c in chunks if c]
    res = []
    ctx = mp.get_context("fork")
    with ctx.Pool(jobs) as pool:
        for r in pool.imap_unordered(_work, chunks):
            res.extend(r)
    res.sort(key=lambda r: r["fn"])
    return res
