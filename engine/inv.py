"""Type invariants: extraction at construction sites, projection on field atoms, instantiation."""
from .lin import Lin, reg_atom, static_bounds, lin_from_key, fm_unsat, I64MAX, ATOM_LO, ATOM_HI, ATOM_MASK, _norm, \
    entails_ge0
from .values import *

SELF = "SELF"


# --------------------------------------------------------------------------------------------- key rewriting

def rewrite_key(k, fn):
    """apply fn to every tuple inside key k bottom-up; fn returns replacement or None"""
    if isinstance(k, tuple):
        nk = tuple(rewrite_key(x, fn) for x in k)
        r = fn(nk)
        return nk if r is None else r
    return k


def subst_self(k, key):
    """replace ('SELF', a, b..) by key + (a, b, ...)"""
    def fn(t):
        if t and t[0] == SELF:
            return tuple(key) + t[2:]
        return None
    return rewrite_key(k, fn)


def re_register(atom):
    """make sure static bounds exist for a (rewritten) atom: derive from its structure"""
    if atom in ATOM_LO:
        return
    k = atom[0]
    if k == "len":
        reg_atom(atom, 0, I64MAX)
    elif k == "byte":
        reg_atom(atom, 0, 255)
    elif k == "veclen":
        reg_atom(atom, 0, I64MAX)
    else:
        reg_atom(atom, None, None)


def rewrite_lin(l, fn_atom):
    t = {}
    for a, c in l.t.items():
        na = fn_atom(a)
        t[na] = t.get(na, 0) + c
    return Lin({a: c for a, c in t.items() if c}, l.c)


def instantiate_inv(inv, key):
    """inv: list of disjuncts; each disjunct = list of (Lin over SELF atoms, meta).  -> list of list of Lin"""
    out = []
    info = inv.get("atoms") or {}
    for conj in inv["disjuncts"]:
        ls = []
        for l in conj:
            def fa(a):
                na = subst_self(a, key)
                if na not in ATOM_LO:
                    # copy static info from the template atom
                    if a in info:
                        lo, hi, m = info[a]
                    else:
                        lo, hi, m = ATOM_LO.get(a), ATOM_HI.get(a), ATOM_MASK.get(a)
                    if lo is None and hi is None:
                        lo, hi, m = structural_bounds(na)
                    reg_atom(na, lo, hi, m)
                    from .lin import ensure_registered
                    ensure_registered(na)
                return na
            ls.append(rewrite_lin(l, fa))
        out.append(ls)
    return out


def structural_bounds(a):
    k = a[0] if isinstance(a, tuple) and a else None
    if k == "byte":
        return 0, 255, 255
    if k in ("len", "veclen", "cap", "initlen"):
        return 0, I64MAX, None
    if k == "and" and len(a) == 3 and isinstance(a[2], int):
        return 0, a[2], a[2]
    return None, None, None


# --------------------------------------------------------------------------------------------- extraction

def value_equations(I, st, v, selfkey, eqs, bytemap, depth=0, fty=None):
    """relate the abstract value v (being stored into a struct position selfkey) to SELF atoms.
    eqs: list of (Lin == 0); bytemap: list of (origin, offLin, SELForigin) for content rewriting"""
    if depth > 6:
        return
    if isinstance(v, VInt):
        a = ("v", selfkey)
        lo, hi = (None, None)
        if fty is not None:
            ft = I.rt(fty)
            from .facts import INT_TYPES
            if isinstance(ft, str) and ft in INT_TYPES:
                lo, hi = INT_TYPES[ft]
        reg_atom(a, lo, hi)
        eqs.append(Lin.atom(a) - v.lin)
    elif isinstance(v, VBool):
        pass
    elif isinstance(v, VRegion):
        so = ("s", selfkey)
        la = reg_atom(("len", so), 0, I64MAX)
        eqs.append(Lin.atom(la) - v.len)
        bytemap.append((v.origin, v.off, so, v.len))
        if v.origin[0] == "place" and v.off.is_const():
            arr = I.load(st, ("place", v.origin[1], v.origin[2], v.origin[3]))
            if isinstance(arr, VArray) and arr.elems is not None:
                for k, e in enumerate(arr.elems):
                    if k - v.off.c >= 0 and isinstance(e, VInt):
                        a = e.lin.single_atom()
                        if a is not None:
                            bytemap.append(("ATOM", a, ("byte", so, k - v.off.c), None))
    elif isinstance(v, VVec):
        la = reg_atom(("veclen", selfkey), 0, I64MAX)
        eqs.append(Lin.atom(la) - v.len)
    elif isinstance(v, VArray) and v.init is not None:
        ia = reg_atom(("initlen", selfkey), 0, v.n if v.n is not None else I64MAX)
        eqs.append(Lin.atom(ia) - v.init)
    elif isinstance(v, VAdt):
        adt = I.F.adts.get(v.path, {})
        if v.fields is not None and adt.get("kind") == "struct":
            ftys = None
            if v.ty is not None:
                ftys = I.field_tys(v.ty, 0)
            if ftys is None:
                ftys = [f["ty"] for f in adt["variants"][0]["fields"]]
            for i, f in enumerate(v.fields):
                value_equations(I, st, f, selfkey + (i,), eqs, bytemap, depth + 1, ftys[i] if i < len(ftys) else None)
        elif adt.get("kind") == "enum" and adt.get("variants"):
            ds = [x["discr"] if x["discr"] is not None else i for i, x in enumerate(adt["variants"])]
            da = reg_atom(("discr", selfkey), min(ds), max(ds))
            if v.variant is not None:
                eqs.append(Lin.atom(da) - I.discr_of_variant(v.path, v.variant))
                if v.fields:
                    ftys = I.field_tys(v.ty, v.variant) if v.ty is not None else None
                    for i, f in enumerate(v.fields):
                        value_equations(I, st, f, selfkey + (("V", v.variant), i), eqs, bytemap, depth + 1,
                                        ftys[i] if ftys and i < len(ftys) else None)
            elif v.key is not None:
                eqs.append(Lin.atom(da) - Lin.atom(I.discr_atom(v)))
                # whatever the state knows about the (lazily materialised) payload is re-rooted below selfkey
                bytemap.append(("KEY", tuple(v.key), tuple(selfkey), None))
    elif isinstance(v, VTuple):
        tt = I.rt(fty) if fty is not None else None
        for i, f in enumerate(v.fields):
            ft = tt["of"][i] if isinstance(tt, dict) and tt.get("k") == "tuple" and i < len(tt["of"]) else None
            value_equations(I, st, f, selfkey + (i,), eqs, bytemap, depth + 1, ft)


def is_self_atom(a):
    """atom only mentions SELF-rooted keys / constants"""
    ok = [True]

    def walk(t, top=False):
        if isinstance(t, tuple):
            if t and t[0] in ("s", "v", "veclen", "cap", "discr", "initlen"):
                # ('s', key) etc: key must be SELF rooted
                k = t[1]
                if not (isinstance(k, tuple) and k and k[0] == SELF):
                    ok[0] = False
                return
            for x in t:
                walk(x)
    if a[0] in ("v", "veclen", "cap", "discr", "initlen"):
        k = a[1]
        return isinstance(k, tuple) and bool(k) and k[0] == SELF
    walk(a)
    return ok[0] and contains_self(a)


def contains_self(t):
    if isinstance(t, tuple):
        if t and t[0] == SELF:
            return True
        return any(contains_self(x) for x in t)
    return False


def project(cons, keep_pred, max_cons=400):
    """Fourier-Motzkin elimination of all atoms not satisfying keep_pred.  cons: list of (dict,c)>=0.
    returns list of (dict,c) over kept atoms (sound over-approximation; may drop constraints)."""
    cur = []
    seen = set()
    for t, c in cons:
        t, c = _norm(dict(t), c)
        if not t:
            continue
        k = (frozenset(t.items()), c)
        if k not in seen:
            seen.add(k)
            cur.append((t, c))
    while True:
        elim = set()
        for t, c in cur:
            for a in t:
                if not keep_pred(a):
                    elim.add(a)
        if not elim:
            break
        pos, neg = {}, {}
        for i, (t, c) in enumerate(cur):
            for a, v in t.items():
                if a in elim:
                    (pos if v > 0 else neg).setdefault(a, []).append(i)
        best = min(elim, key=lambda a: (len(pos.get(a, ())) * len(neg.get(a, ())), repr(a)))
        P, N = pos.get(best, []), neg.get(best, [])
        keep = [x for x in cur if best not in x[0]]
        newc = []
        if len(P) * len(N) <= 400:
            for i in P:
                tp, cp = cur[i]
                kp = tp[best]
                for j in N:
                    tn, cn = cur[j]
                    kn = -tn[best]
                    t = {}
                    for a, v in tp.items():
                        if a != best:
                            t[a] = v * kn
                    for a, v in tn.items():
                        if a != best:
                            nv = t.get(a, 0) + v * kp
                            if nv:
                                t[a] = nv
                            else:
                                t.pop(a, None)
                    c = cp * kn + cn * kp
                    t, c = _norm(t, c)
                    if t:
                        newc.append((t, c))
        cur = keep
        seen = set((frozenset(t.items()), c) for t, c in cur)
        for t, c in newc:
            k = (frozenset(t.items()), c)
            if k not in seen:
                seen.add(k)
                cur.append((t, c))
        if len(cur) > max_cons:
            # drop everything that still mentions atoms to be eliminated
            cur = [(t, c) for t, c in cur if all(keep_pred(a) for a in t)]
            break
    return cur


def extract_disjuncts(I, st, value, root_key=None, drop_fields=()):
    if root_key is None:
        root_key = (SELF, value.path)
    """like extract_disjunct but case-splits the disjunctive facts of the state (bounded)"""
    # disequalities on content bytes / integer fields of the constructed value become range splits
    extra_disj = neq_splits(I, st, value)
    if not st.disj and not extra_disj:
        return [extract_disjunct(I, st, value, root_key, drop_fields)]
    combos = [[]]
    base = [(f.t, f.c) for f in st.facts]
    for d in sorted(list(st.disj) + extra_disj, key=len):
        if len(combos) * len(d) > 160:
            continue
        # product, pruned by feasibility (disjunctions of different invariants over the same value mostly pair up
        # one to one; an unpruned product would both explode and keep combinations another disjunction refutes)
        new = []
        for c in combos:
            for conj in d:
                cand = c + list(conj)
                ats = set()
                for l in cand:
                    ats.update(l.t)
                rel = [f for f in base if any(a in ats for a in f[0])]
                if fm_unsat(rel + [(l.t, l.c) for l in cand]):
                    continue
                new.append(cand)
        if len(new) > 24:
            continue
        combos = new
        if not combos:
            return []
    out = []
    for extra in combos:
        sub = st.fork_facts()
        sub.disj = []
        try:
            for l in extra:
                sub.add_ge0(l)
        except Infeasible:
            continue
        if not sub.feasible():
            continue
        out.append(extract_disjunct(I, sub, value, root_key, drop_fields))
    return out


def value_atoms(I, st, v, acc, depth=0):
    """atoms (of the current state) that describe the content/fields of value v"""
    if depth > 6:
        return
    if isinstance(v, VInt):
        a = v.lin.single_atom()
        if a is not None:
            acc.add(a)
    elif isinstance(v, VRegion):
        acc.add(("REGION", v.origin))
        if v.origin[0] == "place":
            arr = I.load(st, ("place", v.origin[1], v.origin[2], v.origin[3]))
            if isinstance(arr, VArray) and arr.elems is not None:
                for e in arr.elems:
                    if isinstance(e, VInt):
                        a = e.lin.single_atom()
                        if a is not None:
                            acc.add(a)
    elif isinstance(v, VAdt) and v.fields is not None:
        for f in v.fields:
            value_atoms(I, st, f, acc, depth + 1)
    elif isinstance(v, VTuple):
        for f in v.fields:
            value_atoms(I, st, f, acc, depth + 1)


def neq_splits(I, st, value):
    """disjunctions equivalent to the state's disequalities `atom != c` on atoms belonging to value"""
    if not st.neqs:
        return []
    own = set()
    value_atoms(I, st, value, own)
    origins = {a[1] for a in own if a and a[0] == "REGION"}
    per = {}
    for n in st.neqs:
        if len(n.t) != 1:
            continue
        (a, k), = n.t.items()
        if k not in (1, -1):
            continue
        c = -n.c * k  # a != c
        mine = a in own or (isinstance(a, tuple) and a and a[0] == "byte" and a[1] in origins)
        if not mine:
            continue
        per.setdefault(a, set()).add(c)
    out = []
    for a, cs in per.items():
        lo, hi = ATOM_LO.get(a), ATOM_HI.get(a)
        if lo is None or hi is None or len(cs) > 6:
            continue
        cs = sorted(c for c in cs if lo <= c <= hi)
        if not cs:
            continue
        ranges = []
        cur = lo
        for c in cs:
            if c - 1 >= cur:
                ranges.append((cur, c - 1))
            cur = c + 1
        if cur <= hi:
            ranges.append((cur, hi))
        if not ranges or len(ranges) > 4:
            continue
        out.append([[Lin.atom(a) - r0, Lin.const(r1) - Lin.atom(a)] for r0, r1 in ranges])
    return out


def extract_disjunct(I, st, value, root_key=None, drop_fields=()):
    if root_key is None:
        root_key = (SELF, value.path)
    """project the path facts of st onto the SELF atoms of `value` (a struct value being constructed)"""
    eqs, bytemap = [], []
    value_equations(I, st, value, root_key, eqs, bytemap)
    # content rewriting: byte(origin, off+k) -> byte(SELForigin, k) when region covers it
    bm = {}
    atom_map = {}
    keymap = []
    for origin, off, so, ln in bytemap:
        if origin == "ATOM":
            if off not in atom_map:
                atom_map[off] = so
                reg_atom(so, 0, 255)
            continue
        if origin == "KEY":
            keymap.append((off, so))
            continue
        bm.setdefault(origin, []).append((off, so, ln))

    def rw_tuple(t):
        if t in atom_map:
            return atom_map[t]
        for kfrom, kto in keymap:
            if len(t) >= len(kfrom) and t[:len(kfrom)] == kfrom:
                return kto + t[len(kfrom):]
        if t and t[0] == "byte" and len(t) == 3 and t[1] in bm:
            pos = lin_from_key(t[2])
            for off, so, ln in bm[t[1]]:
                d = pos - off
                if d.is_const() and d.c >= 0:
                    if ln.is_const() and d.c >= ln.c:
                        continue
                    return ("byte", so, d.c)
            return None
        if t and t[0] == "len" and len(t) == 2 and t[1] in bm:
            # whole-origin region stored: len(origin) == len(field) only if off==0 and len == len(origin)
            for off, so, ln in bm[t[1]]:
                if off.is_const() and off.c == 0 and ln.single_atom() == t:
                    return ("len", so)
            return None
        # canonical Lin keys nested inside atoms: ((atom,coef)...),c : rebuild sorted
        if len(t) == 2 and isinstance(t[1], int) and isinstance(t[0], tuple) and t[0] and all(
                isinstance(x, tuple) and len(x) == 2 and isinstance(x[1], int) and isinstance(x[0], tuple) for x in t[0]):
            terms = {}
            for a, cf in t[0]:
                terms[a] = terms.get(a, 0) + cf
            return Lin({a: cf for a, cf in terms.items() if cf}, t[1]).key()
        return None

    cache = {}

    def rw_atom(a):
        if a in cache:
            return cache[a]
        na = rewrite_key(a, rw_tuple)
        if na != a and na not in ATOM_LO:
            reg_atom(na, ATOM_LO.get(a), ATOM_HI.get(a), ATOM_MASK.get(a))
        cache[a] = na
        return na

    cons = []
    for f in st.facts:
        l = rewrite_lin(f, rw_atom)
        cons.append((l.t, l.c))
    for e in eqs:
        l = rewrite_lin(e, rw_atom)
        cons.append((l.t, l.c))
        nl = -l
        cons.append((nl.t, nl.c))
    # static bounds of atoms to be eliminated
    atoms = set()
    for t, c in cons:
        atoms.update(t)
    # only keep constraints connected to SELF atoms
    from .lin import relevant
    seed = {a for a in atoms if is_self_atom(a)}
    if not seed:
        return []
    cons, atoms = relevant(cons, seed, extra_rounds=4)
    for a in atoms:
        if not is_self_atom(a):
            lo, hi = ATOM_LO.get(a), ATOM_HI.get(a)
            if lo is not None:
                cons.append(({a: 1}, -lo))
            if hi is not None:
                cons.append(({a: -1}, hi))
    def keep(a):
        if not is_self_atom(a):
            return False
        if drop_fields:
            return not mentions_field(a, drop_fields)
        return True
    res = project(cons, keep)
    out = []
    BIG = 1 << 40
    for t, c in res:
        if abs(c) > BIG or any(abs(v) > BIG for v in t.values()):
            continue
        l = Lin(dict(t), c)
        lo, hi = static_bounds(l)
        if lo is not None and lo >= 0:
            continue
        out.append(l)
    return simplify_conj(out)


def simplify_conj(ls):
    """drop constraints implied by the others (cheap pass)"""
    ls = list(dict.fromkeys(ls))
    out = []
    for i, l in enumerate(ls):
        others = out + ls[i + 1:]
        if others and len(others) <= 40 and entails_ge0(others, l):
            continue
        out.append(l)
    return out


def conj_entails(a, b):
    """conjunction a entails every constraint of b"""
    return all(entails_ge0(a, l) for l in b)


def _single_bound(l):
    """(atom, 'lo'|'hi', value) for a constraint  a - c >= 0  /  -a + c >= 0"""
    if len(l.t) != 1:
        return None
    (a, k), = l.t.items()
    if k == 1:
        return (a, "lo", -l.c)
    if k == -1:
        return (a, "hi", l.c)
    return None


def hull_merge(ds):
    """merge disjuncts that differ only in the bounds of one atom into their interval hull (sound weakening that
    undoes value-by-value case splits)"""
    ds = [list(d) for d in ds]
    changed = True
    while changed and len(ds) > 1:
        changed = False
        keys = [frozenset(l.key() for l in d) for d in ds]
        for i in range(len(ds)):
            for j in range(i + 1, len(ds)):
                common = keys[i] & keys[j]
                d1 = [l for l in ds[i] if l.key() not in common]
                d2 = [l for l in ds[j] if l.key() not in common]
                if not d1 or not d2 or len(d1) > 2 or len(d2) > 2:
                    continue
                b1 = [_single_bound(l) for l in d1]
                b2 = [_single_bound(l) for l in d2]
                if any(b is None for b in b1 + b2):
                    continue
                atoms = {b[0] for b in b1 + b2}
                if len(atoms) != 1:
                    continue
                a = next(iter(atoms))
                lo1 = [b[2] for b in b1 if b[1] == "lo"]
                lo2 = [b[2] for b in b2 if b[1] == "lo"]
                hi1 = [b[2] for b in b1 if b[1] == "hi"]
                hi2 = [b[2] for b in b2 if b[1] == "hi"]
                merged = [l for l in ds[i] if l.key() in common]
                if lo1 and lo2:
                    merged.append(Lin.atom(a) - min(max(lo1), max(lo2)))
                if hi1 and hi2:
                    merged.append(Lin.const(max(min(hi1), min(hi2))) - Lin.atom(a))
                ds[i] = merged
                del ds[j]
                changed = True
                break
            if changed:
                break
    return ds


def merge_disjuncts(ds, cap=24):
    """remove subsumed disjuncts; join if too many"""
    out = []
    for d in ds:
        if any(conj_entails(d, o) for o in out):
            continue
        out = [o for o in out if not conj_entails(o, d)]
        out.append(d)
    if len(out) > 6:
        out = hull_merge(out)
    if len(out) > cap:
        cands = []
        for d in out:
            for l in d:
                if l not in cands:
                    cands.append(l)
        joined = [l for l in cands if all(entails_ge0(d, l) for d in out)]
        out = [simplify_conj(joined)]
    return out


def mentions_field(a, fields):
    """does atom a mention ('SELF', i, ...) with i in fields"""
    if isinstance(a, tuple):
        if a and a[0] == SELF and len(a) > 2 and a[2] in fields:
            return True
        return any(mentions_field(x, fields) for x in a)
    return False
