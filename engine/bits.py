"""Bit-field normal form: a non-negative linear expression whose terms occupy pairwise disjoint bit ranges
(x = sum 2^k_i * a_i, 0 <= a_i < 2^w_i, ranges [k_i, k_i+w_i) disjoint) can be shifted / masked term by term
without carries.  This is what makes  decode(encode(fields)) == fields  decidable for packed header bytes."""
from .lin import Lin, ATOM_LO, ATOM_HI, static_bounds


def atom_width(st, a, max_w):
    """smallest w <= max_w with st |= a <= 2^w - 1 (static bound first, then entailment)"""
    hi = ATOM_HI.get(a)
    lo = ATOM_LO.get(a)
    if lo is None or lo < 0:
        return None
    w = hi.bit_length() if hi is not None else None
    if w is not None and w == 0:
        return 0
    if st is None:
        return w
    # try to tighten (fields of bounded types: 12 bit vlan id in a u16 ...)
    best = w
    top = w if w is not None else max_w
    for cand in range(min(top, max_w) - 1, 0, -1):
        if st.entails(Lin.const((1 << cand) - 1) - Lin.atom(a)):
            best = cand
        else:
            break
    return best


def fields_of(st, lin, max_w=64, refine=True):
    """[(k, w, part Lin)] with lin = sum 2^k * part, parts in disjoint bit ranges; None if not of that shape"""
    if lin.c < 0:
        return None
    fs = []
    for a, coef in lin.t.items():
        if coef <= 0 or (coef & (coef - 1)) != 0:
            return None
        k = coef.bit_length() - 1
        w = atom_width(None, a, max_w)
        fs.append([k, w, Lin.atom(a), a])
    c = lin.c
    pos = 0
    while c:
        if c & 1:
            run = 0
            val = 0
            while c & 1:
                val |= 1 << run
                run += 1
                c >>= 1
            fs.append([pos, run, Lin.const(val), None])
            pos += run
        else:
            c >>= 1
            pos += 1

    def disjoint(fs):
        iv = sorted((f[0], f[0] + f[1]) for f in fs)
        return all(iv[i][1] <= iv[i + 1][0] for i in range(len(iv) - 1))
    if any(f[1] is None for f in fs) or not disjoint(fs):
        if not refine or st is None:
            return None
        for f in fs:
            if f[3] is not None:
                f[1] = atom_width(st, f[3], max_w)
        if any(f[1] is None for f in fs) or not disjoint(fs):
            return None
    return [(f[0], f[1], f[2]) for f in fs]


def shr_fields(I, st, lin, s, ty):
    fs = fields_of(st, lin)
    if fs is None or len(fs) < 2:
        return None
    r = Lin.const(0)
    for (k, w, part) in fs:
        if k >= s:
            r = r + part.scale(1 << (k - s))
        elif k + w <= s:
            continue
        elif part.is_const():
            r = r + Lin.const(part.c >> (s - k))
        else:
            q = I.int_binop(st, "Shr", part, Lin.const(s - k), ty)
            I.add_def_facts(st, q)
            r = r + q
    return r


def and_fields(I, st, lin, c, ty):
    fs = fields_of(st, lin)
    if fs is None:
        return None
    if len(fs) < 2 and not (len(fs) == 1 and fs[0][0] > 0):
        return None
    r = Lin.const(0)
    for (k, w, part) in fs:
        full = (1 << w) - 1
        m = (c >> k) & full
        if m == 0:
            continue
        if m == full:
            r = r + part.scale(1 << k)
        elif part.is_const():
            r = r + Lin.const((part.c & m) << k)
        else:
            q = I.bitand(part, Lin.const(m), ty, st)
            I.add_def_facts(st, q)
            r = r + q.scale(1 << k)
    return r


# ---------------------------------------------------------------------------------------------------------------
# splitting at a bit position:  lin = 2^k * H + L  with 0 <= L < 2^k and H >= 0  (no carry across bit k)

def _entails_range(st, l, lo, hi):
    slo, shi = static_bounds(l)
    ok_lo = slo is not None and slo >= lo
    ok_hi = shi is not None and shi <= hi
    if ok_lo and ok_hi:
        return True
    if st is None:
        return False
    if not ok_lo and not st.entails(l - lo):
        return False
    if not ok_hi and not st.entails(Lin.const(hi) - l):
        return False
    return True


def split_at(st, lin, k):
    """(H, L) with lin = 2^k*H + L, 0 <= L <= 2^k-1, H >= 0; None when that is not entailed"""
    if k <= 0:
        return lin, Lin.const(0)
    p = 1 << k
    ht, lt = {}, {}
    for a, c in lin.t.items():
        if c % p == 0:
            ht[a] = c // p
        else:
            lt[a] = c
    lc = lin.c % p
    hc = (lin.c - lc) // p
    H, L = Lin(ht, hc), Lin(lt, lc)
    if not _entails_range(st, L, 0, p - 1):
        # a low part that is a multiple of a smaller power of two plus carry-free rest is not handled
        return None
    slo, _ = static_bounds(H)
    if not (slo is not None and slo >= 0) and not (st is not None and st.entails(H)):
        return None
    return H, L


def shr_split(I, st, lin, s, ty):
    sp = split_at(st, lin, s)
    if sp is None:
        return None
    H, L = sp
    if not L.t and not H.t:
        return Lin.const(lin.c >> s)
    if not H.t and not H.c:
        return None  # nothing above the cut: the ordinary atom path handles a pure low part
    return H


def and_split(I, st, lin, c, ty, depth=0):
    """lin & c by splitting at the boundaries of the runs of c (None if some split is not entailed)"""
    if c == 0:
        return Lin.const(0)
    if lin.is_const():
        return Lin.const(lin.c & c)
    if depth > 8:
        return None
    if (c & (c + 1)) == 0 and _entails_range(st, lin, 0, c):
        return lin
    tz = (c & -c).bit_length() - 1
    if tz > 0:
        sp = split_at(st, lin, tz)
        if sp is None:
            return None
        r = and_split(I, st, sp[0], c >> tz, ty, depth + 1)
        return None if r is None else r.scale(1 << tz)
    # c is odd: q trailing ones are kept as they are
    q = 0
    while (c >> q) & 1:
        q += 1
    sp = split_at(st, lin, q)
    if sp is None:
        return None
    H, L = sp
    if (c >> q) == 0:
        if not H.t and not H.c:
            return None  # lin itself is the low part: leave it to the atom path
        return L
    r = and_split(I, st, H, c >> q, ty, depth + 1)
    return None if r is None else L + r.scale(1 << q)
