"""Call graph and function scopes (which functions belong to which property)."""
import re


def call_graph(F):
    """path -> set of callee paths (crate-local bodies only), closures included"""
    if hasattr(F, "_cg"):
        return F._cg
    cg = {}
    for b in F.body_list:
        cs = set()
        for blk in b["blocks"]:
            for st in blk["stmts"]:
                if st["s"] == "assign":
                    rv = st["rvalue"]
                    if rv["rv"] == "agg" and rv["kind"].get("agg") == "closure":
                        cs.add(rv["kind"]["path"])
                    for op in ([rv.get("op")] if rv.get("op") else []) + rv.get("ops", []):
                        k = op.get("k") if isinstance(op, dict) else None
                        if k and "fn" in k:
                            cs.add(k["fn"])
            t = blk["term"]
            if t["t"] == "call":
                c = t["callee"]
                p = c.get("res") or c.get("decl")
                if p:
                    cs.add(p)
                for a in t["args"]:
                    k = a.get("k")
                    if k and "fn" in k:
                        cs.add(k["fn"])
                    if k and isinstance(F.types[k["ty"]], dict) and F.types[k["ty"]].get("k") == "closure":
                        cs.add(F.types[k["ty"]]["path"])
        cg[b["path"]] = {c for c in cs if c in F.bodies}
    F._cg = cg
    return cg


def reachable(F, roots):
    cg = call_graph(F)
    seen = set(roots)
    work = list(roots)
    while work:
        x = work.pop()
        for y in cg.get(x, ()):
            if y not in seen:
                seen.add(y)
                work.append(y)
    return seen


def externally_callable(b):
    if b["kind"] == "Closure":
        return False
    if b.get("trait"):
        return True
    return bool(b.get("reachable"))


def ty_mentions_byte_slice(F, ti, depth=0, seen=None):
    """does type ti (index or obj) contain a &[u8] / &[u8;N] (through local structs / enums)"""
    if seen is None:
        seen = set()
    t = F.types[ti] if isinstance(ti, int) else ti
    if isinstance(t, str) or depth > 6:
        return False
    k = t["k"]
    if k == "ref":
        to = F.types[t["to"]] if isinstance(t["to"], int) else t["to"]
        if isinstance(to, dict) and to["k"] in ("slice", "array"):
            of = F.types[to["of"]] if isinstance(to["of"], int) else to["of"]
            if of == "u8" and not t["mut"]:
                return True
        return ty_mentions_byte_slice(F, t["to"], depth + 1, seen)
    if k in ("slice", "array"):
        return ty_mentions_byte_slice(F, t["of"], depth + 1, seen)
    if k == "tuple":
        return any(ty_mentions_byte_slice(F, x, depth + 1, seen) for x in t["of"])
    if k == "adt":
        p = t["path"]
        if p in seen:
            return False
        seen.add(p)
        for a in t["args"]:
            if "t" in a and ty_mentions_byte_slice(F, a["t"], depth + 1, seen):
                return True
        adt = F.adts.get(p)
        if adt and adt["local"]:
            for v in adt["variants"]:
                for f in v["fields"]:
                    if ty_mentions_byte_slice(F, f["ty"], depth + 1, seen):
                        return True
    return False


WRITER_NAME = re.compile(r"::(write\w*|to_bytes|to_vec|calc_\w+|update_checksum\w*|with_\w*checksum\w*|set_\w+|"
                         r"try_from_elements|size|final_\w+|header_len|new|new_raw|ipv[46]\w*|udp|tcp|icmpv[46]\w*|"
                         r"ethernet2|linux_sll|vlan|single_vlan|double_vlan|arp|ip|ttl|options\w*|ns|fin|syn|rst|psh|ack|urg|"
                         r"ece|cwr|macsec\w*)$")


def decode_roots(F):
    """externally callable functions that decode bytes or operate on decoded views / error values"""
    roots = []
    for b in F.body_list:
        if not externally_callable(b) or b.get("unsafe"):
            continue
        path = b["path"]
        if path.startswith(("packet_builder::", "writer::", "test_", "checksum::")):
            continue
        if path.startswith("defrag::") and False:
            continue
        name = path.rsplit("::", 1)[-1].split("@")[0]
        args = [b["locals"][i + 1][0] for i in range(b["arg_count"])]
        is_method_of_slice_type = False
        if "self_ty" in b and ty_mentions_byte_slice(F, b["self_ty"]):
            is_method_of_slice_type = True
        takes_bytes = False
        takes_mut_bytes = False
        reader = False
        for a in args:
            t = F.types[a]
            if isinstance(t, dict) and t["k"] == "ref":
                to = F.types[t["to"]]
                if isinstance(to, dict) and to["k"] in ("slice", "array") and F.types[to["of"]] == "u8":
                    if t["mut"]:
                        takes_mut_bytes = True
                    else:
                        takes_bytes = True
                if isinstance(to, dict) and to["k"] == "param" and t["mut"] and ("read" in name or "skip" in name):
                    reader = True
                if isinstance(to, dict) and to["k"] == "adt" and to["path"].endswith("LimitedReader"):
                    reader = True
            if isinstance(t, dict) and t["k"] == "array" and F.types[t["of"]] == "u8" and name.startswith("from_"):
                takes_bytes = True
        is_err_fmt = path.startswith("<err::") and b.get("trait") in ("core::fmt::Debug", "core::fmt::Display")
        encoder = bool(WRITER_NAME.search(path.split("@")[0])) and not name.startswith(("from_", "read"))
        if is_err_fmt or reader:
            roots.append(path)
        elif is_method_of_slice_type and not takes_mut_bytes:
            roots.append(path)
        elif takes_bytes and not encoder and not takes_mut_bytes:
            roots.append(path)
    return roots


def _is_u8_seq(F, t):
    t = F.types[t] if isinstance(t, int) else t
    if isinstance(t, dict) and t["k"] in ("slice", "array"):
        of = F.types[t["of"]] if isinstance(t["of"], int) else t["of"]
        return of == "u8"
    return False


def encode_roots(F):
    """externally callable functions that emit bytes: they take a generic writer (`&mut T`), a `&mut [u8]`, a
    `&mut Vec<u8>` or a crate writer type, or they are methods of writer:: / LimitedReader types"""
    roots = []
    for b in F.body_list:
        if b["kind"] == "Closure" or b.get("unsafe") or b.get("derived"):
            continue
        path = b["path"]
        if path.startswith(("<err::", "err::")):
            continue
        hit = path.startswith(("writer::", "<writer::", "io::limited_reader::"))
        for i in range(b["arg_count"]):
            t = F.types[b["locals"][i + 1][0]]
            if not (isinstance(t, dict) and t["k"] == "ref" and t["mut"]):
                continue
            to = F.types[t["to"]]
            if not isinstance(to, dict):
                continue
            name = path.rsplit("::", 1)[-1]
            if to["k"] == "param" and not name.startswith(("read", "skip")) and b.get("trait") is None:
                hit = True
            elif _is_u8_seq(F, to):
                hit = True
            elif to["k"] == "adt" and (to["path"].startswith("writer::") or
                                       (to["path"].endswith("::Vec") and any("t" in a and F.types[a["t"]] == "u8" for a in to["args"]))):
                hit = True
        if hit:
            roots.append(path)
    return roots
