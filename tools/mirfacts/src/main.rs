// mirfacts: rustc_private driver that exports the MIR of the crate being compiled as JSON facts.
// Used as RUSTC_WORKSPACE_WRAPPER; drops argv[1] (the real rustc path) and runs the compiler in-process.
// Output: $MIRFACTS_OUT/<crate_name>.json  (only when MIRFACTS_OUT is set and the crate name is listed in
// MIRFACTS_CRATES, a comma separated list; default "etherparse").
#![feature(rustc_private)]
#![allow(clippy::all)]

extern crate rustc_abi;
extern crate rustc_data_structures;
extern crate rustc_driver;
extern crate rustc_hir;
extern crate rustc_index;
extern crate rustc_interface;
extern crate rustc_middle;
extern crate rustc_span;

use rustc_driver::{Callbacks, Compilation};
use rustc_hir::def::DefKind;
use rustc_hir::def_id::{DefId, LocalDefId};
use rustc_middle::mir::*;
use rustc_middle::mir::interpret::Scalar;
use rustc_middle::ty::{self, Ty, TyCtxt};
use rustc_span::Span;
use std::collections::HashMap;
use std::fmt::Write as _;

fn esc(s: &str) -> String {
    let mut o = String::with_capacity(s.len() + 2);
    o.push('"');
    for c in s.chars() {
        match c {
            '"' => o.push_str("\\\""),
            '\\' => o.push_str("\\\\"),
            '\n' => o.push_str("\\n"),
            '\r' => o.push_str("\\r"),
            '\t' => o.push_str("\\t"),
            c if (c as u32) < 0x20 => {
                let _ = write!(o, "\\u{:04x}", c as u32);
            }
            c => o.push(c),
        }
    }
    o.push('"');
    o
}

fn jlist(items: impl IntoIterator<Item = String>) -> String {
    let mut o = String::from("[");
    let mut first = true;
    for i in items {
        if !first {
            o.push(',');
        }
        first = false;
        o.push_str(&i);
    }
    o.push(']');
    o
}

struct Ex<'tcx> {
    tcx: TyCtxt<'tcx>,
    types: Vec<String>,
    type_ix: HashMap<Ty<'tcx>, usize>,
    adts_seen: Vec<DefId>,
    adts_set: std::collections::HashSet<DefId>,
    in_promoted: bool,
}

impl<'tcx> Ex<'tcx> {
    fn path(&self, did: DefId) -> String {
        ty::print::with_no_trimmed_paths!(self.tcx.def_path_str(did))
    }

    fn span_s(&self, sp: Span) -> String {
        let sm = self.tcx.sess.source_map();
        let lo = sm.lookup_char_pos(sp.lo());
        let name = format!("{}", lo.file.name.prefer_local_unconditionally());
        format!("{}:{}:{}", name, lo.line, lo.col.0 + 1)
    }

    fn expn_s(&self, sp: Span) -> String {
        if !sp.from_expansion() {
            return "null".into();
        }
        let d = sp.ctxt().outer_expn_data();
        let k = match d.kind {
            rustc_span::ExpnKind::Root => "root".to_string(),
            rustc_span::ExpnKind::Macro(_, name) => format!("macro:{}", name),
            rustc_span::ExpnKind::AstPass(_) => "astpass".to_string(),
            rustc_span::ExpnKind::Desugaring(dk) => format!("desugar:{:?}", dk),
        };
        esc(&k)
    }

    fn ty(&mut self, t: Ty<'tcx>) -> usize {
        if let Some(&i) = self.type_ix.get(&t) {
            return i;
        }
        // reserve slot first (recursive types through ADTs are by path, so no cycles here)
        let s = self.ty_json(t);
        let i = self.types.len();
        self.types.push(s);
        self.type_ix.insert(t, i);
        i
    }

    fn garg(&mut self, a: ty::GenericArg<'tcx>) -> Option<String> {
        match a.kind() {
            ty::GenericArgKind::Type(t) => Some(format!("{{\"t\":{}}}", self.ty(t))),
            ty::GenericArgKind::Const(c) => {
                let v = c.try_to_target_usize(self.tcx);
                Some(match v {
                    Some(v) => format!("{{\"c\":{}}}", v),
                    None => format!("{{\"c\":null,\"s\":{}}}", esc(&format!("{:?}", c))),
                })
            }
            ty::GenericArgKind::Lifetime(_) => None,
        }
    }

    fn gargs(&mut self, args: ty::GenericArgsRef<'tcx>) -> String {
        let v: Vec<String> = args.iter().filter_map(|a| self.garg(a)).collect();
        jlist(v)
    }

    fn note_adt(&mut self, did: DefId) {
        if self.adts_set.insert(did) {
            self.adts_seen.push(did);
        }
    }

    fn ty_json(&mut self, t: Ty<'tcx>) -> String {
        let tcx = self.tcx;
        match t.kind() {
            ty::Bool | ty::Char | ty::Int(_) | ty::Uint(_) | ty::Float(_) | ty::Str | ty::Never => {
                esc(&format!("{}", t))
            }
            ty::Adt(def, args) => {
                self.note_adt(def.did());
                let kind = if def.is_struct() {
                    "struct"
                } else if def.is_enum() {
                    "enum"
                } else {
                    "union"
                };
                format!(
                    "{{\"k\":\"adt\",\"path\":{},\"kind\":\"{}\",\"args\":{}}}",
                    esc(&self.path(def.did())),
                    kind,
                    self.gargs(args)
                )
            }
            ty::Ref(_, inner, m) => {
                format!("{{\"k\":\"ref\",\"mut\":{},\"to\":{}}}", m.is_mut(), self.ty(*inner))
            }
            ty::RawPtr(inner, m) => {
                format!("{{\"k\":\"ptr\",\"mut\":{},\"to\":{}}}", m.is_mut(), self.ty(*inner))
            }
            ty::Slice(inner) => format!("{{\"k\":\"slice\",\"of\":{}}}", self.ty(*inner)),
            ty::Array(inner, c) => {
                let n = c.try_to_target_usize(tcx);
                format!(
                    "{{\"k\":\"array\",\"of\":{},\"len\":{}}}",
                    self.ty(*inner),
                    n.map(|v| v.to_string()).unwrap_or("null".into())
                )
            }
            ty::Tuple(ts) => {
                if ts.is_empty() {
                    "\"()\"".to_string()
                } else {
                    let v: Vec<String> = ts.iter().map(|x| self.ty(x).to_string()).collect();
                    format!("{{\"k\":\"tuple\",\"of\":{}}}", jlist(v))
                }
            }
            ty::Param(p) => format!("{{\"k\":\"param\",\"name\":{}}}", esc(p.name.as_str())),
            ty::FnDef(did, args) => format!(
                "{{\"k\":\"fndef\",\"path\":{},\"args\":{}}}",
                esc(&self.path(*did)),
                self.gargs(args)
            ),
            ty::Closure(did, _args) => {
                format!("{{\"k\":\"closure\",\"path\":{}}}", esc(&self.path(*did)))
            }
            ty::FnPtr(..) => format!("{{\"k\":\"fnptr\",\"s\":{}}}", esc(&format!("{}", t))),
            ty::Dynamic(..) => format!("{{\"k\":\"dyn\",\"s\":{}}}", esc(&format!("{}", t))),
            ty::Alias(..) => format!("{{\"k\":\"alias\",\"s\":{}}}", esc(&format!("{}", t))),
            _ => format!("{{\"k\":\"other\",\"s\":{}}}", esc(&format!("{:?}", t))),
        }
    }

    fn scalar_json(&mut self, si: ty::ScalarInt, t: Ty<'tcx>) -> Option<String> {
        match t.kind() {
            ty::Bool => Some(format!("{{\"bool\":{}}}", si.to_bits(si.size()) != 0)),
            ty::Char => Some(format!("{{\"int\":{}}}", si.to_bits(si.size()))),
            ty::Uint(_) => Some(format!("{{\"int\":{}}}", si.to_bits(si.size()))),
            ty::Int(_) => {
                let bits = si.size().bits();
                let raw = si.to_bits(si.size());
                let v: i128 = if bits == 128 {
                    raw as i128
                } else if raw >> (bits - 1) & 1 == 1 {
                    (raw as i128) - (1i128 << bits)
                } else {
                    raw as i128
                };
                Some(format!("{{\"int\":{}}}", v))
            }
            _ => None,
        }
    }

    fn cval_json(&mut self, val: ConstValue, t: Ty<'tcx>, depth: usize) -> String {
        let tcx = self.tcx;
        if let ConstValue::ZeroSized = val {
            if let ty::FnDef(did, args) = t.kind() {
                return format!("{{\"fn\":{},\"args\":{}}}", esc(&self.path(*did)), self.gargs(args));
            }
            if !matches!(t.kind(), ty::Adt(..) | ty::Tuple(..) | ty::Array(..)) {
                return "{\"zst\":true}".to_string();
            }
        }
        if let ConstValue::Scalar(Scalar::Int(si)) = val {
            if let Some(s) = self.scalar_json(si, t) {
                return s;
            }
        }
        if depth < 6 && matches!(t.kind(), ty::Adt(..) | ty::Tuple(..) | ty::Array(..)) {
            if let ty::Adt(d, _) = t.kind() {
                if d.is_union() {
                    return format!("{{\"opaque\":{}}}", esc("union"));
                }
            }
            if let ty::Array(_, n) = t.kind() {
                if n.try_to_target_usize(tcx).map(|n| n > 4096).unwrap_or(true) {
                    return format!("{{\"opaque\":{}}}", esc("bigarray"));
                }
            }
            if let Some(d) = tcx.try_destructure_mir_constant_for_user_output(val, t) {
                let fields: Vec<String> =
                    d.fields.iter().map(|(v, ft)| self.cval_json(*v, *ft, depth + 1)).collect();
                let var = match d.variant {
                    Some(v) => v.as_u32().to_string(),
                    None => "null".into(),
                };
                return format!("{{\"variant\":{},\"fields\":{}}}", var, jlist(fields));
            }
        }
        if let ConstValue::Slice { .. } = val {
            if let Some(bytes) = val.try_get_slice_bytes_for_diagnostics(tcx) {
                let v: Vec<String> = bytes.iter().take(4096).map(|b| b.to_string()).collect();
                return format!("{{\"bytes\":{}}}", jlist(v));
            }
        }
        format!("{{\"opaque\":{}}}", esc(&format!("{:?}", val)))
    }

    fn const_json(&mut self, c: &ConstOperand<'tcx>, env: ty::TypingEnv<'tcx>) -> String {
        let tcx = self.tcx;
        let t = c.const_.ty();
        let ti = self.ty(t);
        if let ty::FnDef(did, args) = t.kind() {
            return format!(
                "{{\"ty\":{},\"fn\":{},\"args\":{}}}",
                ti,
                esc(&self.path(*did)),
                self.gargs(args)
            );
        }
        let mut extra = String::new();
        if let Const::Unevaluated(uv, _) = c.const_ {
            if let Some(p) = uv.promoted {
                let _ = write!(extra, ",\"promoted\":{}", p.as_u32());
            } else {
                let _ = write!(extra, ",\"item\":{}", esc(&self.path(uv.def)));
            }
        }
        let body = match c.const_.eval(tcx, env, c.span) {
            Ok(v) => self.cval_json(v, t, 0),
            Err(_) => format!("{{\"opaque\":{}}}", esc(&format!("{:?}", c.const_))),
        };
        // splice: body is an object "{...}"
        format!("{{\"ty\":{}{},{}", ti, extra, &body[1..])
    }

    fn place_json(&mut self, p: &Place<'tcx>, body: &Body<'tcx>) -> String {
        if p.projection.is_empty() {
            return format!("{{\"l\":{}}}", p.local.as_u32());
        }
        let mut projs = Vec::new();
        for e in p.projection.iter() {
            projs.push(match e {
                ProjectionElem::Deref => "\"deref\"".to_string(),
                ProjectionElem::Field(f, t) => format!("{{\"f\":{},\"ty\":{}}}", f.as_u32(), self.ty(t)),
                ProjectionElem::Index(l) => format!("{{\"idx\":{}}}", l.as_u32()),
                ProjectionElem::ConstantIndex { offset, min_length, from_end } => format!(
                    "{{\"cidx\":{},\"min\":{},\"from_end\":{}}}",
                    offset, min_length, from_end
                ),
                ProjectionElem::Subslice { from, to, from_end } => {
                    format!("{{\"sub\":[{},{}],\"from_end\":{}}}", from, to, from_end)
                }
                ProjectionElem::Downcast(name, v) => format!(
                    "{{\"dc\":{},\"name\":{}}}",
                    v.as_u32(),
                    name.map(|n| esc(n.as_str())).unwrap_or("null".into())
                ),
                ProjectionElem::OpaqueCast(t) => format!("{{\"opaque_cast\":{}}}", self.ty(t)),
                ProjectionElem::UnwrapUnsafeBinder(t) => format!("{{\"unwrap_binder\":{}}}", self.ty(t)),
            });
        }
        let pty = p.ty(&body.local_decls, self.tcx).ty;
        format!("{{\"l\":{},\"p\":{},\"ty\":{}}}", p.local.as_u32(), jlist(projs), self.ty(pty))
    }

    fn op_json(&mut self, o: &Operand<'tcx>, body: &Body<'tcx>, env: ty::TypingEnv<'tcx>) -> String {
        match o {
            Operand::Copy(p) => format!("{{\"c\":{}}}", self.place_json(p, body)),
            Operand::Move(p) => format!("{{\"m\":{}}}", self.place_json(p, body)),
            Operand::Constant(c) => format!("{{\"k\":{}}}", self.const_json(c, env)),
            Operand::RuntimeChecks(rc) => format!("{{\"rtc\":{}}}", esc(&format!("{:?}", rc))),
        }
    }

    fn rvalue_json(&mut self, rv: &Rvalue<'tcx>, body: &Body<'tcx>, env: ty::TypingEnv<'tcx>) -> String {
        let tcx = self.tcx;
        match rv {
            Rvalue::Use(o, ..) => format!("{{\"rv\":\"use\",\"op\":{}}}", self.op_json(o, body, env)),
            Rvalue::Repeat(o, n) => format!(
                "{{\"rv\":\"repeat\",\"op\":{},\"n\":{}}}",
                self.op_json(o, body, env),
                n.try_to_target_usize(tcx).map(|v| v.to_string()).unwrap_or("null".into())
            ),
            Rvalue::Ref(_, bk, p) => format!(
                "{{\"rv\":\"ref\",\"mut\":{},\"bk\":{},\"place\":{}}}",
                matches!(bk, BorrowKind::Mut { .. }),
                esc(&format!("{:?}", bk)),
                self.place_json(p, body)
            ),
            Rvalue::ThreadLocalRef(d) => format!("{{\"rv\":\"tls\",\"path\":{}}}", esc(&self.path(*d))),
            Rvalue::RawPtr(k, p) => format!(
                "{{\"rv\":\"rawptr\",\"mut\":{},\"place\":{}}}",
                matches!(k, RawPtrKind::Mut),
                self.place_json(p, body)
            ),
            Rvalue::Cast(k, o, t) => {
                let ks = match k {
                    CastKind::IntToInt => "IntToInt".to_string(),
                    CastKind::PtrToPtr => "PtrToPtr".to_string(),
                    CastKind::Transmute => "Transmute".to_string(),
                    CastKind::PointerExposeProvenance => "PointerExposeProvenance".to_string(),
                    CastKind::PointerWithExposedProvenance => "PointerWithExposedProvenance".to_string(),
                    CastKind::PointerCoercion(pc, _) => format!("PointerCoercion:{:?}", pc),
                    other => format!("{:?}", other),
                };
                format!(
                    "{{\"rv\":\"cast\",\"kind\":{},\"op\":{},\"ty\":{}}}",
                    esc(&ks),
                    self.op_json(o, body, env),
                    self.ty(*t)
                )
            }
            Rvalue::BinaryOp(op, ab) => format!(
                "{{\"rv\":\"bin\",\"op\":\"{:?}\",\"a\":{},\"b\":{}}}",
                op,
                self.op_json(&ab.0, body, env),
                self.op_json(&ab.1, body, env)
            ),
            Rvalue::UnaryOp(op, a) => {
                format!("{{\"rv\":\"un\",\"op\":\"{:?}\",\"a\":{}}}", op, self.op_json(a, body, env))
            }
            Rvalue::Discriminant(p) => format!("{{\"rv\":\"discr\",\"place\":{}}}", self.place_json(p, body)),
            Rvalue::Aggregate(k, ops) => {
                let opsj: Vec<String> = ops.iter().map(|o| self.op_json(o, body, env)).collect();
                let kj = match &**k {
                    AggregateKind::Array(t) => format!("{{\"agg\":\"array\",\"of\":{}}}", self.ty(*t)),
                    AggregateKind::Tuple => "{\"agg\":\"tuple\"}".to_string(),
                    AggregateKind::Adt(did, vi, args, _, active) => {
                        self.note_adt(*did);
                        let adt = tcx.adt_def(*did);
                        let v = adt.variant(*vi);
                        let fnames: Vec<String> = v.fields.iter().map(|f| esc(f.name.as_str())).collect();
                        format!(
                            "{{\"agg\":\"adt\",\"path\":{},\"variant\":{},\"vname\":{},\"args\":{},\"fields\":{},\"union_field\":{}}}",
                            esc(&self.path(*did)),
                            vi.as_u32(),
                            esc(v.name.as_str()),
                            self.gargs(args),
                            jlist(fnames),
                            active.map(|f| f.as_u32().to_string()).unwrap_or("null".into())
                        )
                    }
                    AggregateKind::Closure(did, _) => {
                        format!("{{\"agg\":\"closure\",\"path\":{}}}", esc(&self.path(*did)))
                    }
                    AggregateKind::RawPtr(t, m) => {
                        format!("{{\"agg\":\"rawptr\",\"to\":{},\"mut\":{}}}", self.ty(*t), m.is_mut())
                    }
                    other => format!("{{\"agg\":\"other\",\"s\":{}}}", esc(&format!("{:?}", other))),
                };
                format!("{{\"rv\":\"agg\",\"kind\":{},\"ops\":{}}}", kj, jlist(opsj))
            }
            Rvalue::CopyForDeref(p) => {
                format!("{{\"rv\":\"use\",\"op\":{{\"c\":{}}}}}", self.place_json(p, body))
            }
            Rvalue::WrapUnsafeBinder(o, t) => format!(
                "{{\"rv\":\"wrap_binder\",\"op\":{},\"ty\":{}}}",
                self.op_json(o, body, env),
                self.ty(*t)
            ),
        }
    }

    fn callee_json(
        &mut self,
        func: &Operand<'tcx>,
        body: &Body<'tcx>,
        env: ty::TypingEnv<'tcx>,
    ) -> String {
        let tcx = self.tcx;
        let fty = func.ty(&body.local_decls, tcx);
        if let ty::FnDef(did, args) = fty.kind() {
            let decl = self.path(*did);
            let decl_args = self.gargs(args);
            let mut o = format!("{{\"decl\":{},\"decl_args\":{}", esc(&decl), decl_args);
            let dk = tcx.def_kind(*did);
            if matches!(dk, DefKind::Fn | DefKind::AssocFn) {
                let sig = tcx.fn_sig(*did).skip_binder();
                let _ = write!(o, ",\"unsafe\":{}", sig.safety().is_unsafe());
            }
            if let Some(i) = tcx.intrinsic(*did) {
                let _ = write!(o, ",\"intrinsic\":{}", esc(i.name.as_str()));
            }
            let _ = write!(o, ",\"local\":{}", did.is_local());
            if let Some(tr) = tcx.trait_of_assoc(*did) {
                let _ = write!(o, ",\"trait\":{}", esc(&self.path(tr)));
            }
            match ty::Instance::try_resolve(tcx, env, *did, args) {
                Ok(Some(inst)) => {
                    let rd = inst.def_id();
                    let kind = match inst.def {
                        ty::InstanceKind::Item(_) => "item".to_string(),
                        ty::InstanceKind::Intrinsic(_) => "intrinsic".to_string(),
                        ty::InstanceKind::Virtual(..) => "virtual".to_string(),
                        other => {
                            let s = format!("{:?}", other);
                            s.split('(').next().unwrap_or("").to_string()
                        }
                    };
                    let _ = write!(
                        o,
                        ",\"res\":{},\"res_args\":{},\"res_kind\":{},\"res_local\":{}",
                        esc(&self.path(rd)),
                        self.gargs(inst.args),
                        esc(&kind),
                        rd.is_local()
                    );
                }
                _ => {
                    let _ = write!(o, ",\"res\":null");
                }
            }
            o.push('}');
            o
        } else {
            format!("{{\"indirect\":{}}}", self.op_json(func, body, env))
        }
    }

    fn assert_json(&mut self, msg: &AssertMessage<'tcx>, body: &Body<'tcx>, env: ty::TypingEnv<'tcx>) -> String {
        match msg {
            AssertKind::BoundsCheck { len, index } => format!(
                "{{\"kind\":\"BoundsCheck\",\"len\":{},\"index\":{}}}",
                self.op_json(len, body, env),
                self.op_json(index, body, env)
            ),
            AssertKind::Overflow(op, a, b) => format!(
                "{{\"kind\":\"Overflow\",\"op\":\"{:?}\",\"a\":{},\"b\":{}}}",
                op,
                self.op_json(a, body, env),
                self.op_json(b, body, env)
            ),
            AssertKind::OverflowNeg(a) => {
                format!("{{\"kind\":\"OverflowNeg\",\"a\":{}}}", self.op_json(a, body, env))
            }
            AssertKind::DivisionByZero(a) => {
                format!("{{\"kind\":\"DivisionByZero\",\"a\":{}}}", self.op_json(a, body, env))
            }
            AssertKind::RemainderByZero(a) => {
                format!("{{\"kind\":\"RemainderByZero\",\"a\":{}}}", self.op_json(a, body, env))
            }
            AssertKind::MisalignedPointerDereference { .. } => "{\"kind\":\"Misaligned\"}".to_string(),
            AssertKind::NullPointerDereference => "{\"kind\":\"NullDeref\"}".to_string(),
            AssertKind::InvalidEnumConstruction(a) => {
                format!("{{\"kind\":\"InvalidEnum\",\"a\":{}}}", self.op_json(a, body, env))
            }
            other => format!("{{\"kind\":\"Other\",\"s\":{}}}", esc(&format!("{:?}", other))),
        }
    }

    fn body_json(&mut self, ldid: LocalDefId) -> Option<String> {
        let tcx = self.tcx;
        let did = ldid.to_def_id();
        let dk = tcx.def_kind(did);
        if !matches!(dk, DefKind::Fn | DefKind::AssocFn | DefKind::Closure) {
            return None;
        }
        if !tcx.is_mir_available(did) {
            return None;
        }
        let body: &Body<'tcx> = tcx.optimized_mir(did);
        let env = ty::TypingEnv::post_analysis(tcx, did);
        let mut o = String::new();
        let _ = write!(o, "{{\"path\":{}", esc(&self.path(did)));
        let _ = write!(o, ",\"dp\":{}", esc(&tcx.def_path(did).to_string_no_crate_verbose()));
        let _ = write!(o, ",\"kind\":\"{:?}\"", dk);
        let _ = write!(o, ",\"span\":{}", esc(&self.span_s(body.span)));
        let _ = write!(o, ",\"expn\":{}", self.expn_s(body.span));
        if matches!(dk, DefKind::Fn | DefKind::AssocFn) {
            let sig = tcx.fn_sig(did).skip_binder();
            let _ = write!(o, ",\"unsafe\":{}", sig.safety().is_unsafe());
            let vis = tcx.visibility(did);
            let _ = write!(o, ",\"vis\":{}", esc(&format!("{:?}", vis)));
            let ev = tcx.effective_visibilities(());
            let _ = write!(o, ",\"reachable\":{}", ev.is_reachable(ldid));
            let _ = write!(o, ",\"const_fn\":{}", tcx.is_const_fn(did));
        }
        if matches!(dk, DefKind::Closure) {
            let _ = write!(o, ",\"parent\":{}", esc(&self.path(tcx.typeck_root_def_id(did))));
        }
        if matches!(dk, DefKind::AssocFn) {
            let parent = tcx.parent(did);
            if matches!(tcx.def_kind(parent), DefKind::Impl { .. }) {
                let st = tcx.type_of(parent).instantiate_identity().skip_norm_wip();
                let _ = write!(o, ",\"self_ty\":{}", self.ty(st));
                if let Some(tr) = tcx.impl_opt_trait_ref(parent) {
                    let tr = tr.instantiate_identity().skip_norm_wip();
                    let _ = write!(o, ",\"trait\":{}", esc(&self.path(tr.def_id)));
                    let _ = write!(o, ",\"trait_args\":{}", self.gargs(tr.args));
                }
                let derived = tcx.is_automatically_derived(parent);
                let _ = write!(o, ",\"derived\":{}", derived);
            } else {
                let _ = write!(o, ",\"in_trait\":{}", esc(&self.path(parent)));
            }
        }
        let _ = write!(o, ",\"arg_count\":{}", body.arg_count);
        // locals
        let mut names: HashMap<u32, String> = HashMap::new();
        for vdi in body.var_debug_info.iter() {
            if let VarDebugInfoContents::Place(p) = &vdi.value {
                if p.projection.is_empty() {
                    names.entry(p.local.as_u32()).or_insert(vdi.name.to_string());
                }
            }
        }
        let mut locals = Vec::new();
        for (l, d) in body.local_decls.iter_enumerated() {
            let ti = self.ty(d.ty);
            let n = names.get(&l.as_u32()).map(|s| esc(s)).unwrap_or("null".into());
            locals.push(format!("[{},{},{}]", ti, n, d.mutability.is_mut()));
        }
        let _ = write!(o, ",\"locals\":{}", jlist(locals));
        // blocks
        let mut blocks = Vec::new();
        for (_bb, data) in body.basic_blocks.iter_enumerated() {
            let mut stmts = Vec::new();
            for st in data.statements.iter() {
                let sp = st.source_info.span;
                let meta = format!("\"sp\":{},\"ex\":{}", esc(&self.span_s(sp)), self.expn_s(sp));
                match &st.kind {
                    StatementKind::Assign(b) => {
                        let (p, rv) = &**b;
                        stmts.push(format!(
                            "{{\"s\":\"assign\",\"place\":{},\"rvalue\":{},{}}}",
                            self.place_json(p, body),
                            self.rvalue_json(rv, body, env),
                            meta
                        ));
                    }
                    StatementKind::SetDiscriminant { place, variant_index } => {
                        stmts.push(format!(
                            "{{\"s\":\"setdiscr\",\"place\":{},\"variant\":{},{}}}",
                            self.place_json(place, body),
                            variant_index.as_u32(),
                            meta
                        ));
                    }
                    StatementKind::Intrinsic(i) => match &**i {
                        NonDivergingIntrinsic::Assume(op) => stmts.push(format!(
                            "{{\"s\":\"assume\",\"op\":{},{}}}",
                            self.op_json(op, body, env),
                            meta
                        )),
                        NonDivergingIntrinsic::CopyNonOverlapping(c) => stmts.push(format!(
                            "{{\"s\":\"copy_nonoverlapping\",\"src\":{},\"dst\":{},\"count\":{},{}}}",
                            self.op_json(&c.src, body, env),
                            self.op_json(&c.dst, body, env),
                            self.op_json(&c.count, body, env),
                            meta
                        )),
                    },
                    StatementKind::StorageDead(l) => {
                        stmts.push(format!("{{\"s\":\"dead\",\"l\":{}}}", l.as_u32()));
                    }
                    StatementKind::StorageLive(_)
                    | StatementKind::FakeRead(..)
                    | StatementKind::PlaceMention(..)
                    | StatementKind::AscribeUserType(..)
                    | StatementKind::Coverage(..)
                    | StatementKind::ConstEvalCounter
                    | StatementKind::Nop
                    | StatementKind::BackwardIncompatibleDropHint { .. } => {}
                    #[allow(unreachable_patterns)]
                    other => {
                        stmts.push(format!(
                            "{{\"s\":\"other\",\"d\":{},{}}}",
                            esc(&format!("{:?}", other)),
                            meta
                        ));
                    }
                }
            }
            let term = data.terminator();
            let sp = term.source_info.span;
            let meta = format!("\"sp\":{},\"ex\":{}", esc(&self.span_s(sp)), self.expn_s(sp));
            let tj = match &term.kind {
                TerminatorKind::Goto { target } => format!("{{\"t\":\"goto\",\"target\":{},{}}}", target.as_u32(), meta),
                TerminatorKind::SwitchInt { discr, targets } => {
                    let dty = discr.ty(&body.local_decls, tcx);
                    let tg: Vec<String> =
                        targets.iter().map(|(v, b)| format!("[{},{}]", v, b.as_u32())).collect();
                    format!(
                        "{{\"t\":\"switch\",\"discr\":{},\"dty\":{},\"targets\":{},\"otherwise\":{},{}}}",
                        self.op_json(discr, body, env),
                        self.ty(dty),
                        jlist(tg),
                        targets.otherwise().as_u32(),
                        meta
                    )
                }
                TerminatorKind::Return => format!("{{\"t\":\"return\",{}}}", meta),
                TerminatorKind::Unreachable => format!("{{\"t\":\"unreachable\",{}}}", meta),
                TerminatorKind::UnwindResume => format!("{{\"t\":\"resume\",{}}}", meta),
                TerminatorKind::UnwindTerminate(_) => format!("{{\"t\":\"terminate\",{}}}", meta),
                TerminatorKind::Drop { place, target, .. } => format!(
                    "{{\"t\":\"drop\",\"place\":{},\"target\":{},{}}}",
                    self.place_json(place, body),
                    target.as_u32(),
                    meta
                ),
                TerminatorKind::Call { func, args, destination, target, fn_span, .. } => {
                    let aj: Vec<String> = args.iter().map(|a| self.op_json(&a.node, body, env)).collect();
                    format!(
                        "{{\"t\":\"call\",\"callee\":{},\"args\":{},\"dest\":{},\"target\":{},\"fn_sp\":{},{}}}",
                        self.callee_json(func, body, env),
                        jlist(aj),
                        self.place_json(destination, body),
                        target.map(|t| t.as_u32().to_string()).unwrap_or("null".into()),
                        esc(&self.span_s(*fn_span)),
                        meta
                    )
                }
                TerminatorKind::Assert { cond, expected, msg, target, .. } => format!(
                    "{{\"t\":\"assert\",\"cond\":{},\"expected\":{},\"msg\":{},\"target\":{},{}}}",
                    self.op_json(cond, body, env),
                    expected,
                    self.assert_json(msg, body, env),
                    target.as_u32(),
                    meta
                ),
                TerminatorKind::FalseEdge { real_target, .. } => {
                    format!("{{\"t\":\"goto\",\"target\":{},{}}}", real_target.as_u32(), meta)
                }
                TerminatorKind::FalseUnwind { real_target, .. } => {
                    format!("{{\"t\":\"goto\",\"target\":{},{}}}", real_target.as_u32(), meta)
                }
                other => format!("{{\"t\":\"other\",\"d\":{},{}}}", esc(&format!("{:?}", other)), meta),
            };
            blocks.push(format!(
                "{{\"stmts\":{},\"term\":{},\"cleanup\":{}}}",
                jlist(stmts),
                tj,
                data.is_cleanup
            ));
        }
        let _ = write!(o, ",\"blocks\":{}", jlist(blocks));
        // promoted constants of this body (tiny straight-line bodies)
        let mut proms = Vec::new();
        if !self.in_promoted {
            self.in_promoted = true;
            let pm = tcx.promoted_mir(did);
            for pb in pm.iter() {
                proms.push(self.raw_body_json(pb, env));
            }
            self.in_promoted = false;
        }
        let _ = write!(o, ",\"promoted\":{}}}", jlist(proms));
        Some(o)
    }

    fn raw_body_json(&mut self, body: &Body<'tcx>, env: ty::TypingEnv<'tcx>) -> String {
        let tcx = self.tcx;
        let mut locals = Vec::new();
        for (_l, d) in body.local_decls.iter_enumerated() {
            let ti = self.ty(d.ty);
            locals.push(format!("[{},null,{}]", ti, d.mutability.is_mut()));
        }
        let mut blocks = Vec::new();
        for (_bb, data) in body.basic_blocks.iter_enumerated() {
            let mut stmts = Vec::new();
            for st in data.statements.iter() {
                if let StatementKind::Assign(b) = &st.kind {
                    let (p, rv) = &**b;
                    stmts.push(format!(
                        "{{\"s\":\"assign\",\"place\":{},\"rvalue\":{},\"sp\":null,\"ex\":null}}",
                        self.place_json(p, body),
                        self.rvalue_json(rv, body, env)
                    ));
                }
            }
            let term = data.terminator();
            let tj = match &term.kind {
                TerminatorKind::Goto { target } => format!("{{\"t\":\"goto\",\"target\":{}}}", target.as_u32()),
                TerminatorKind::Return => "{\"t\":\"return\"}".to_string(),
                TerminatorKind::Assert { cond, expected, msg, target, .. } => format!(
                    "{{\"t\":\"assert\",\"cond\":{},\"expected\":{},\"msg\":{},\"target\":{}}}",
                    self.op_json(cond, body, env),
                    expected,
                    self.assert_json(msg, body, env),
                    target.as_u32()
                ),
                other => format!("{{\"t\":\"other\",\"d\":{}}}", esc(&format!("{:?}", other))),
            };
            blocks.push(format!("{{\"stmts\":{},\"term\":{},\"cleanup\":false}}", jlist(stmts), tj));
        }
        let _ = tcx;
        format!(
            "{{\"arg_count\":0,\"locals\":{},\"blocks\":{}}}",
            jlist(locals),
            jlist(blocks)
        )
    }

    fn adt_json(&mut self, did: DefId) -> String {
        let tcx = self.tcx;
        let adt = tcx.adt_def(did);
        let kind = if adt.is_struct() {
            "struct"
        } else if adt.is_enum() {
            "enum"
        } else {
            "union"
        };
        let mut variants = Vec::new();
        for (vi, v) in adt.variants().iter_enumerated() {
            let discr = if adt.is_enum() {
                let d = adt.discriminant_for_variant(tcx, vi);
                // interpret according to signedness
                let sz = d.ty;
                match sz.kind() {
                    ty::Int(_) => {
                        let bits = rustc_abi::Integer::from_attr(&tcx, adt.repr().discr_type()).size().bits();
                        let raw = d.val;
                        let v: i128 = if bits < 128 && (raw >> (bits - 1)) & 1 == 1 {
                            (raw as i128) - (1i128 << bits)
                        } else {
                            raw as i128
                        };
                        v.to_string()
                    }
                    _ => d.val.to_string(),
                }
            } else {
                "null".to_string()
            };
            let mut fields = Vec::new();
            for f in v.fields.iter() {
                let ft0 = tcx.type_of(f.did).instantiate_identity();
                let env = ty::TypingEnv::post_analysis(tcx, did);
                let ft = tcx
                    .try_normalize_erasing_regions(env, ft0)
                    .unwrap_or(tcx.type_of(f.did).instantiate_identity().skip_norm_wip());
                let vis = match f.vis {
                    ty::Visibility::Public => "pub".to_string(),
                    ty::Visibility::Restricted(r) => format!("restricted:{}", self.path(r)),
                };
                fields.push(format!(
                    "{{\"name\":{},\"ty\":{},\"vis\":{}}}",
                    esc(f.name.as_str()),
                    self.ty(ft),
                    esc(&vis)
                ));
            }
            variants.push(format!(
                "{{\"name\":{},\"discr\":{},\"fields\":{}}}",
                esc(v.name.as_str()),
                discr,
                jlist(fields)
            ));
        }
        let gens = tcx.generics_of(did);
        let gnames: Vec<String> = gens
            .own_params
            .iter()
            .filter(|p| !matches!(p.kind, ty::GenericParamDefKind::Lifetime))
            .map(|p| esc(p.name.as_str()))
            .collect();
        let mut extra = String::new();
        if did.is_local() {
            let _ = write!(extra, ",\"span\":{}", esc(&self.span_s(tcx.def_span(did))));
            let ev = tcx.effective_visibilities(());
            let _ = write!(extra, ",\"reachable\":{}", ev.is_reachable(did.expect_local()));
        }
        format!(
            "{{\"path\":{},\"kind\":\"{}\",\"local\":{},\"generics\":{},\"variants\":{}{}}}",
            esc(&self.path(did)),
            kind,
            did.is_local(),
            jlist(gnames),
            jlist(variants),
            extra
        )
    }
}

fn export(tcx: TyCtxt<'_>) {
    let out_dir = match std::env::var("MIRFACTS_OUT") {
        Ok(d) => d,
        Err(_) => return,
    };
    let crate_name = tcx.crate_name(rustc_hir::def_id::LOCAL_CRATE).to_string();
    let wanted = std::env::var("MIRFACTS_CRATES").unwrap_or_else(|_| "etherparse".to_string());
    if !wanted.split(',').any(|w| w == crate_name) {
        return;
    }
    // only the lib target: skip when compiling tests
    if tcx.sess.opts.test {
        return;
    }
    let mut ex = Ex {
        tcx,
        types: Vec::new(),
        type_ix: HashMap::new(),
        adts_seen: Vec::new(),
        adts_set: Default::default(),
        in_promoted: false,
    };
    let mut bodies = Vec::new();
    for ldid in tcx.hir_body_owners() {
        if let Some(b) = ex.body_json(ldid) {
            bodies.push(b);
        }
    }
    // consts, local ADTs, impls
    let mut consts = Vec::new();
    let mut impls = Vec::new();
    let items = tcx.hir_crate_items(());
    for ldid in items.definitions() {
        let did = ldid.to_def_id();
        match tcx.def_kind(did) {
            DefKind::Const { .. } | DefKind::AssocConst { .. } => {
                if tcx.generics_of(did).requires_monomorphization(tcx) {
                    continue;
                }
                // skip trait-declared assoc consts without default
                let t = tcx.type_of(did).instantiate_identity().skip_norm_wip();
                let val = match tcx.const_eval_poly(did) {
                    Ok(v) => ex.cval_json(v, t, 0),
                    Err(_) => continue,
                };
                let ti = ex.ty(t);
                consts.push(format!(
                    "{{\"path\":{},\"ty\":{},\"val\":{},\"span\":{}}}",
                    esc(&ex.path(did)),
                    ti,
                    val,
                    esc(&ex.span_s(tcx.def_span(did)))
                ));
            }
            DefKind::Struct | DefKind::Enum | DefKind::Union => {
                ex.note_adt(did);
            }
            DefKind::Impl { .. } => {
                let st = tcx.type_of(did).instantiate_identity().skip_norm_wip();
                let sti = ex.ty(st);
                let (tr, trargs) = match tcx.impl_opt_trait_ref(did) {
                    Some(t) => {
                        let t = t.instantiate_identity().skip_norm_wip();
                        (esc(&ex.path(t.def_id)), ex.gargs(t.args))
                    }
                    None => ("null".to_string(), "[]".to_string()),
                };
                let its: Vec<String> =
                    tcx.associated_item_def_ids(did).iter().map(|d| esc(&ex.path(*d))).collect();
                impls.push(format!(
                    "{{\"self_ty\":{},\"trait\":{},\"trait_args\":{},\"derived\":{},\"items\":{},\"span\":{}}}",
                    sti,
                    tr,
                    trargs,
                    tcx.is_automatically_derived(did),
                    jlist(its),
                    esc(&ex.span_s(tcx.def_span(did)))
                ));
            }
            _ => {}
        }
    }
    // ADTs (worklist: exporting an ADT may intern new types → new ADTs)
    let mut adts = Vec::new();
    let mut i = 0;
    while i < ex.adts_seen.len() {
        let d = ex.adts_seen[i];
        i += 1;
        // limit foreign ADT expansion to a sane depth
        if !d.is_local() && i > 4000 {
            continue;
        }
        adts.push(ex.adt_json(d));
    }
    let mut out = String::new();
    let _ = write!(
        out,
        "{{\"crate\":{},\"features\":{},\"types\":{},\"adts\":{},\"consts\":{},\"impls\":{},\"bodies\":{}}}",
        esc(&crate_name),
        esc(&std::env::var("MIRFACTS_CONFIG").unwrap_or_default()),
        jlist(ex.types.clone()),
        jlist(adts),
        jlist(consts),
        jlist(impls),
        jlist(bodies)
    );
    let path = format!("{}/{}.json", out_dir, crate_name);
    let tmp = format!("{}.tmp.{}", path, std::process::id());
    std::fs::write(&tmp, out).expect("write facts");
    std::fs::rename(&tmp, &path).expect("rename facts");
}

struct Cb;
impl Callbacks for Cb {
    fn after_analysis<'tcx>(
        &mut self,
        _compiler: &rustc_interface::interface::Compiler,
        tcx: TyCtxt<'tcx>,
    ) -> Compilation {
        export(tcx);
        Compilation::Continue
    }
}

fn main() {
    let mut args: Vec<String> = std::env::args().collect();
    // RUSTC_WORKSPACE_WRAPPER passes the real rustc as argv[1]
    if args.len() > 1 && (args[1].ends_with("rustc") || args[1].contains("/rustc")) {
        args.remove(1);
    }
    rustc_driver::install_ice_hook("https://invalid", |_| ());
    let code = rustc_driver::catch_with_exit_code(|| rustc_driver::run_compiler(&args, &mut Cb));
    std::process::exit(if code == std::process::ExitCode::SUCCESS { 0 } else { 1 });
}
